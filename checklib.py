"""Driver for the libhtp deterministic-simulation checks.

  ./check --setup                      build the simulator for the current /repo tree
  ./check <Cnn> --tier quick|thorough  run the check of one property (also honours VERIF_TIER / VERIF_SEED / VERIF_BUDGET_S)
  ./check <Cnn> --replay <plan>        replay a plan file (exit 1 if the violation reproduces)

Exit codes: 0 property held on everything explored; 1 VIOLATION printed; 2 machinery error.
"""
import sys, os, json, hashlib, subprocess, glob, time, shutil, fcntl, array, re
from concurrent.futures import ThreadPoolExecutor

VERIF = os.path.dirname(os.path.abspath(__file__))
REPO = os.environ.get("VERIF_REPO", "/repo")
BUILD = os.path.join(VERIF, "build")
OUT = os.path.join(VERIF, "out")
SIM = os.path.join(VERIF, "sim")
CC = "clang"
CXX = "clang++"
GUARD = "OISF_LIBHTP_VERIF"
NCPU = os.cpu_count() or 4

REDEFINE = ["malloc", "calloc", "realloc", "free", "strdup", "gettimeofday", "mkstemp", "write", "close", "unlink", "umask"]

FLAVORS = {
    # libhtp flags, harness flags, link flags
    "san": (["-O1", "-g", "-fno-omit-frame-pointer", "-fsanitize=address,undefined", "-fsanitize-coverage=trace-pc-guard"],
            ["-O1", "-g", "-fno-omit-frame-pointer", "-fsanitize=address", "-DSIM_SANITIZE"],
            ["-fsanitize=address,undefined"]),
    "plain": (["-O2", "-gdwarf-4", "-fsanitize-coverage=trace-pc-guard"], ["-O2", "-gdwarf-4"], []),   # DWARF 4: valgrind 3.19 cannot read clang's DWARF 5
    "own": (["-O1", "-g", "-fno-omit-frame-pointer", "-fsanitize=address,undefined", "-fsanitize-coverage=trace-pc-guard,trace-loads,trace-stores"],
            ["-O1", "-g", "-fno-omit-frame-pointer", "-fsanitize=address", "-DSIM_SANITIZE", "-DSIM_OWNERSHIP"],
            ["-fsanitize=address,undefined"]),
    # reach measurement only (tools/coverage.sh): source coverage of libhtp under the checks' own workloads
    "cov": (["-O0", "-g", "-fprofile-instr-generate", "-fcoverage-mapping", "-fsanitize-coverage=trace-pc-guard"], ["-O1", "-g"], ["-fprofile-instr-generate"]),
}


def sh(cmd, **kw):
    return subprocess.run(cmd, stdout=subprocess.PIPE, stderr=subprocess.STDOUT, text=True, **kw)


def sha_files(paths, extra=""):
    h = hashlib.sha256()
    h.update(extra.encode())
    for p in paths:
        h.update(p.encode())
        with open(p, "rb") as f:
            h.update(f.read())
    return h.hexdigest()[:20]


def repo_sources():
    c = sorted(glob.glob(os.path.join(REPO, "htp", "*.c")) + glob.glob(os.path.join(REPO, "htp", "lzma", "*.c")))
    hdr = sorted(glob.glob(os.path.join(REPO, "htp", "*.h")) + glob.glob(os.path.join(REPO, "htp", "lzma", "*.h")))
    return c, hdr


class BuildError(Exception):
    pass


def compile_many(jobs):
    """jobs: list of (cmd, output). Runs in parallel; raises BuildError with the compiler output on failure."""
    def one(job):
        cmd, out = job
        r = sh(cmd)
        return (r.returncode, out, r.stdout)
    with ThreadPoolExecutor(max_workers=NCPU) as ex:
        res = list(ex.map(one, jobs))
    bad = [r for r in res if r[0] != 0]
    if bad:
        raise BuildError("\n".join("%s:\n%s" % (b[1], b[2]) for b in bad[:3]))


def build(flavor="san", quiet=True):
    """Builds htpsim for the current working tree of /repo. Returns the path of the binary."""
    os.makedirs(BUILD, exist_ok=True)
    lib_flags, har_flags, link_flags = FLAVORS[flavor]
    csrc, hdrs = repo_sources()
    stub_inc = os.path.join(BUILD, "stubinc")
    os.makedirs(stub_inc, exist_ok=True)
    stub = os.path.join(stub_inc, "htp_config_auto_gen.h")
    if not os.path.exists(stub):
        with open(stub, "w") as f:
            f.write("/* fallback when the autotools-generated header is absent */\n")
    common_c = ["-std=gnu99", "-D_GNU_SOURCE", "-D" + GUARD, "-I" + REPO, "-I" + os.path.join(REPO, "htp"), "-I" + stub_inc, "-w"]
    auto_gen = os.path.join(REPO, "htp_config_auto_gen.h")
    lib_key = sha_files(csrc + hdrs + ([auto_gen] if os.path.exists(auto_gen) else []), " ".join(lib_flags + common_c + REDEFINE) + "v4" + flavor)
    sim_src = sorted(glob.glob(os.path.join(SIM, "*.cpp")))
    sim_hdr = sorted(glob.glob(os.path.join(SIM, "*.h")))
    har_key = sha_files(sim_src + sim_hdr + hdrs, " ".join(har_flags) + "v3")
    libdir = os.path.join(BUILD, "lib-%s-%s" % (flavor, lib_key))
    hardir = os.path.join(BUILD, "har-%s-%s" % (flavor, har_key))
    zdir = os.path.join(BUILD, "zpriv")
    exe = os.path.join(BUILD, "htpsim-%s-%s-%s" % (flavor, lib_key, har_key))
    if os.path.exists(exe):
        return exe
    lock = open(os.path.join(BUILD, ".lock"), "w")
    fcntl.flock(lock, fcntl.LOCK_EX)
    try:
        if os.path.exists(exe):
            return exe
        redef = os.path.join(BUILD, "redefine-%s.syms" % flavor)
        with open(redef, "w") as f:
            for s in REDEFINE:
                f.write("%s sim_%s\n" % (s, s))
            if flavor == "own":
                # bulk writes are not seen by trace-stores: route them through the ownership oracle as well
                for s in ("__asan_memcpy", "__asan_memmove", "__asan_memset", "memcpy", "memmove", "memset", "strncpy", "vsnprintf", "snprintf", "strncat"):
                    f.write("%s simown_%s\n" % (s, s.replace("__asan_", "asan_")))
        # ---- private copy of zlib with its allocations behind the seam
        zlib_a = os.path.join(zdir, "libzpriv.a")
        if not os.path.exists(zlib_a):
            shutil.rmtree(zdir, ignore_errors=True)
            os.makedirs(zdir)
            src_a = "/usr/lib/x86_64-linux-gnu/libz.a"
            r = sh(["ar", "x", src_a], cwd=zdir)
            if r.returncode != 0:
                raise BuildError("ar x libz.a failed: " + r.stdout)
            objs = sorted(glob.glob(os.path.join(zdir, "*.o")))
            zredef = os.path.join(zdir, "z.syms")
            with open(zredef, "w") as f:
                for s in ("malloc", "calloc", "free"):
                    f.write("%s sim_%s\n" % (s, s))
            for o in objs:
                r = sh(["objcopy", "--redefine-syms=" + zredef, o])
                if r.returncode != 0:
                    raise BuildError("objcopy zlib failed: " + r.stdout)
            r = sh(["ar", "rcs", zlib_a + ".tmp"] + objs)
            if r.returncode != 0:
                raise BuildError("ar rcs failed: " + r.stdout)
            os.rename(zlib_a + ".tmp", zlib_a)
        # ---- libhtp objects from the working tree
        if not os.path.exists(os.path.join(libdir, ".done")):
            shutil.rmtree(libdir, ignore_errors=True)
            os.makedirs(libdir)
            jobs = []
            for s in csrc:
                o = os.path.join(libdir, os.path.relpath(s, REPO).replace("/", "_")[:-2] + ".o")
                jobs.append(([CC, "-c"] + lib_flags + common_c + [s, "-o", o], o))
            compile_many(jobs)
            for _, o in jobs:
                r = sh(["objcopy", "--redefine-syms=" + redef, o])
                if r.returncode != 0:
                    raise BuildError("objcopy failed: " + r.stdout)
            # audit: nothing of the allocation/clock/file family may be left unredirected
            left = []
            for _, o in jobs:
                r = sh(["nm", "-u", o])
                for line in r.stdout.splitlines():
                    sym = line.split()[-1] if line.split() else ""
                    if sym in REDEFINE or sym in ("reallocarray", "posix_memalign", "aligned_alloc", "strndup", "time", "clock_gettime", "open", "fopen", "read"):
                        left.append("%s:%s" % (os.path.basename(o), sym))
            with open(os.path.join(libdir, "unredirected.json"), "w") as f:
                json.dump(left, f)
            # writable statics: the watch list of the shared-memory oracle (C19)
            wr = []
            for _, o in jobs:
                r = sh(["nm", "-S", o])
                for line in r.stdout.splitlines():
                    parts = line.split()
                    if len(parts) == 4 and parts[2] in ("D", "d", "B", "b") and not parts[3].startswith("__sancov") and not parts[3].startswith(".") and "asan" not in parts[3] and "ubsan" not in parts[3]:
                        wr.append({"obj": os.path.basename(o), "sym": parts[3], "size": int(parts[1], 16), "sect": parts[2]})
            with open(os.path.join(libdir, "writable_statics.json"), "w") as f:
                json.dump(wr, f)
            open(os.path.join(libdir, ".done"), "w").close()
        # ---- harness objects
        if not os.path.exists(os.path.join(hardir, ".done")):
            shutil.rmtree(hardir, ignore_errors=True)
            os.makedirs(hardir)
            jobs = []
            for s in sim_src:
                o = os.path.join(hardir, os.path.basename(s)[:-4] + ".o")
                jobs.append(([CXX, "-c", "-std=c++17", "-Wall", "-Wno-unused-function"] + har_flags + ["-I" + REPO, "-I" + os.path.join(REPO, "htp"), "-I" + stub_inc, "-I" + SIM, s, "-o", o], o))
            compile_many(jobs)
            open(os.path.join(hardir, ".done"), "w").close()
        objs = sorted(glob.glob(os.path.join(libdir, "*.o"))) + sorted(glob.glob(os.path.join(hardir, "*.o")))
        r = sh([CXX, "-no-pie"] + link_flags + objs + [zlib_a, "/usr/lib/x86_64-linux-gnu/liblzma.a", "-lpthread", "-o", exe + ".tmp"])
        if r.returncode != 0:
            raise BuildError("link failed:\n" + r.stdout)
        os.rename(exe + ".tmp", exe)
        # prune old builds (keep the 6 most recent of each kind)
        for pat in ("htpsim-*", "lib-*", "har-*"):
            old = sorted(glob.glob(os.path.join(BUILD, pat)), key=os.path.getmtime)[:-8]
            for p in old:
                if os.path.isdir(p):
                    shutil.rmtree(p, ignore_errors=True)
                else:
                    try:
                        os.unlink(p)
                    except OSError:
                        pass
        return exe
    finally:
        fcntl.flock(lock, fcntl.LOCK_UN)
        lock.close()


def statics_env(exe):
    """VERIF_STATICS value for an `own` binary (watch list of the shared-memory oracle)."""
    plain = build("plain")
    names = sorted(set(w["sym"] for w in (lib_info(plain).get("writable_statics") or []) if not w["sym"].startswith("__")))
    r = sh(["nm", "-S", exe])
    items = []
    for line in r.stdout.splitlines():
        parts = line.split()
        if len(parts) == 4 and parts[3] in names and parts[2] in "DdBb":
            items.append("0x%s:%d:%s" % (parts[0], int(parts[1], 16), parts[3]))
    return ",".join(items)


def lib_info(exe):
    m = re.match(r".*htpsim-(\w+)-(\w+)-(\w+)$", exe)
    libdir = os.path.join(BUILD, "lib-%s-%s" % (m.group(1), m.group(2)))
    info = {}
    for n in ("unredirected", "writable_statics"):
        try:
            info[n] = json.load(open(os.path.join(libdir, n + ".json")))
        except Exception:
            info[n] = None
    return info




# ====================================================================================================
# property table
# ====================================================================================================

COMPONENTS = {
    "real": ["libhtp (every htp/*.c and htp/lzma/*.c of the working tree, compiled with the guard on)", "zlib inflate (system libz.a, allocations behind the seam)"],
    "stub": ["HTTP client and server actors (seeded grammar + the repo's .t captures + mutations)", "TCP wire: segmentation, interleaving, loss, close/abort",
             "IDS application layer: reassembly queue + QUICK_START 2.2 DATA_OTHER hand-over + tx disposal", "user callbacks (scripted OK/DECLINED/STOP/ERROR/register tx hook/destroy completed tx)",
             "allocator (malloc/calloc/realloc/strdup/free seam)", "wall clock (gettimeofday seam)", "file system (mkstemp/write/close/unlink/umask seam)"],
}

PROPS = {
    "C01": dict(reach=['fault.gap.issued', 'fault.gap.accepted', 'fault.close', 'fault.abort', 'fault.cb.stop', 'fault.cb.error', 'fault.cb.declined', 'fault.cb.reg_tx_hook', 'fault.cb.destroy_done_tx', 'fault.clock', 'fault.fs', 'fault.api.zero_len', 'fault.api.reopen', 'disposals', 'tx_freed', 'probe.decomp.passthrough', 'probe.decomp.restart', 'probe.req.buf.limit', 'probe.res.buf.limit', 'data_other.req', 'data_other.res'], flavor="san", level="exploration",
                claim="Seeded search over whole-system simulated runs (actors, wire, IDS stub, callbacks, clock, file layer around the real libhtp under ASan+UBSan); every run checks memory safety, termination within a virtual-CPU budget and exact leak-freedom after teardown. Sampling, not proof: a clean batch is evidence for the schedules, inputs and configurations drawn.",
                note="Trusts clang 14 ASan/UBSan, the seam layer (objcopy symbol redirection) and the harness; allocation failure is excluded here (C18); NULL+0 is benign by policy.",
                technique="deterministic simulation with fault injection (seeded schedules, gaps/close/abort/callback/clock/fs faults) under ASan+UBSan with exact allocation accounting",
                design_ref="DESIGN.md section 7 C01", rule="seeded chaos plans: grammar traffic, .t captures and mutations of both, every segmentation strategy, legal and illegal interleavings, gaps, close/req-close/abort at arbitrary points, API misuse, scripted callback behaviours, clock and file-layer faults, random points of the configuration lattice. Oracle: no ASan/UBSan report, virtual-CPU budget per call, exact live-allocation set empty after teardown. Non-trivial = run completed >= 1 transaction and contained >= 1 cut or fault; distinct = distinct behaviour signature (hash of the sequence of (direction, parser state before the call, return code, callbacks fired))."),
    "C02": dict(flavor="san", level="exploration",
                claim="Ground-truth oracle: seeded actors build each message from a structured spec (the reference model never parses bytes) and the reported transactions are compared field by field with what was sent, inside multi-message connections delivered by the simulated wire.",
                note="Domain is the grammar of DESIGN.md section 4 (CRLF line ends, known methods, token header names, no ':' in response continuation lines, no repeated Content-Length); hostname compared case-insensitively.",
                technique="deterministic simulation: seeded actors with ground truth + wire schedules; history check of reported transactions against the actors' record",
                design_ref="DESIGN.md section 7 C02",
                rule="1-16 well-formed exchanges per connection from the grammar (folded/repeated/many headers, CL/chunked(+ext,+trailers)/close bodies, absolute and origin targets, cookies, Basic/Digest credentials, query and urlencoded body parameters, HEAD/204/304/interim-100), all 9 personalities; half of the runs use one chunk per message, the rest random legal interleavings and chunkings. Every field the spec determines is compared with the reported transaction. Non-trivial/distinct as for C01."),
    "C04": dict(flavor="san", level="exploration",
                claim="Seeded search over legal interleavings and chunkings of 1-40 tagged exchanges; pairing, order, count, completion after close and the pipelining indicator (computed from the op list with a stated tolerance window) are checked on every run.",
                note="Legal = every byte of request i is offered before the first byte of response i. The indicator must be set when a whole request line was offered before the previous response began, must not be set when every request began after the previous response began; in between either value is accepted.",
                technique="deterministic simulation: seeded interleaving/chunking schedules of two actors' streams; history check with unique ids",
                design_ref="DESIGN.md section 7 C04",
                rule="N in 1..40 tagged exchanges (id in the request target and in an X-Sim-Id response header), short bodies, all framings, HEAD/204/304/interim 100; random legal interleavings (request bias 20/50/80/100 %) x chunking strategies. Non-trivial/distinct as for C01."),
    "C06": dict(flavor="san", level="exploration",
                claim="Conservation oracle: bytes handed to the body callbacks equal the entity body the actor sent (per transaction and direction), end-of-body marker before completion, length fields equal the accounting; plus the all-input accounting invariants evaluated in every chaos and well-formed run.",
                note="Ground-truth half: no content coding, CRLF grammar; message_len for chunked bodies counts from the first chunk-size line through the last-chunk line (htp.h).",
                technique="deterministic simulation: seeded framings x hostile bodies x wire schedules; conservation check of delivered body bytes against the actor's record",
                design_ref="DESIGN.md section 7 C06",
                rule="three quarters of the runs: well-formed exchanges with hostile bodies (CR/LF/NUL, look-alike request/status/chunk-size lines), CL / chunked (sizes 1..n, extensions, trailers) / close-delimited, bodies up to 20 KB, all segmentation strategies and legal interleavings, transaction disposal and slot recycling in a sixth of them; one quarter: the chaos scenario of C01 (arbitrary bytes, gaps, closes, callback faults, content codings on both sides) decided by the all-input monitors alone (entity length == bytes handed to callbacks, message length monotone and bounded by what was offered, end-of-body marker before the completion callback of a side whose body was delivered). Non-trivial/distinct as for C01."),
    "C11": dict(flavor="san", level="exploration",
                claim="Seeded search over spellings, positions, casings, optional white space and wire segmentations of each ambiguity trigger the actor applies to a well-formed request; the corresponding indicator must be set on that transaction and a chunked body must be framed by the chunked coding.",
                note="One-directional, as the statement is: trigger present => flag set. Untouched messages are counted as controls, never raised. 'Unparseable Content-Length' means no usable number (empty, non-numeric, overflow); libhtp's lenient acceptance of junk around digits is not litigated.",
                technique="deterministic simulation: seeded actors apply triggers, wire schedules vary segmentation; spec-level predicate => flag on the reported transaction",
                design_ref="DESIGN.md section 7 C11",
                rule="23 triggers (chunked as the last element of a Transfer-Encoding list or of two Transfer-Encoding lines next to a Content-Length, empty / blank Host value alone and with an absolute target, TE+CL both orders, two CL same/different, folded CL, chunked on HTTP/1.0, CL empty/non-numeric/overflow, unsupported TE, target host/port differs from Host, Host missing on 1.1, invalid Host header (bad char, empty label, bad port, unclosed IPv6), invalid target host/port) x random header order/casing/OWS among 0-70 other headers x 1-3 exchanges x all segmentation strategies. Non-trivial/distinct as for C01."),
    "C16": dict(reach=['probe.req.connect.suspend', 'probe.tx.yield_data_other', 'c16.tunnel_expected', 'c16.http_resumes', 'rc.req.4', 'rc.res.4', 'data_other.req', 'data_other.res'], flavor="san", level="exploration",
                claim="Seeded search over CONNECT / upgrade exchanges x response status x what follows x legal interleavings x segmentations; checks suspension of the request side, tunnel mode (TUNNEL for every later call, no callbacks, no new transactions) and exact resumption of HTTP parsing after a refusal or when the tunnel carries plain HTTP.",
                note="Tunnel payload is modelled as client-speaks-first (the server's tunnel bytes are offered after the client's); TLS-looking payload contains a NUL early, as real handshakes do.",
                technique="deterministic simulation: two actors around a CONNECT/upgrade, seeded interleaving of the two directions incl. request bytes beyond the CONNECT head before/after the response; history checks on return codes, consumed counts, callbacks and transactions",
                design_ref="DESIGN.md section 7 C16",
                rule="0-2 ordinary exchanges, then CONNECT (or GET+Upgrade) with status 200/204/299/101/407/403/502/400/500/302/300/301/399/599, followed by plain HTTP exchanges (the first of them now and then with blanks in front of its method), TLS-looking bytes or nothing; an eighth of the runs: refused, and the client sends opaque bytes all the same (nothing may report TUNNEL); in a third of the upgrade runs the RESPONSE_HEADERS callback of the 101 answer returns STOP/ERROR (the request direction must still end in tunnel mode); request bias 20-100 % (100 = all request bytes first, i.e. beyond the CONNECT head in the same or next chunk); all segmentation strategies. Non-trivial/distinct as for C01."),
    "C07": dict(reach=['probe.decomp.flush_full', 'probe.decomp.restart', 'probe.decomp.passthrough', 'c07.bomb_runs', 'known_hit.decomp.restart.prior_input_beyond_keepback'], flavor="san", level="exploration",
                claim="Fidelity: payloads encoded by the actors (zlib gzip/raw/zlib-wrapped, liblzma LZMA-alone, two-layer lists, mislabelled and plain bodies) are delivered through every segmentation of the compressed stream and compared with the original payload, under a simulated well-behaved clock. Bound: in every run (incl. the chaos mix with small bomb limits, corrupted streams and clock faults) delivered bytes per message stay within max(limit, 2048 x compressed) + one output buffer and the decompressor chain within the layer limit.",
                note="Encoders (zlib deflate, liblzma) are trusted actor code; lzma is not mixed into multi-codec lists (libhtp decodes in listed order, the RFC lists in applied order; gzip/deflate mixes are rescued by libhtp's restart logic). The gettimeofday seam advances 1 us per read. One known finding (K07, call site decomp.restart with more than 13 body bytes handed over by earlier calls) is attributed by the monitor and exempt; a restart with 1-13 prior bytes is never exempt.",
                technique="deterministic simulation: seeded chunkings of the compressed stream under a simulated clock; conservation oracle against the actor's payload + online bound invariant",
                design_ref="DESIGN.md section 7 C07",
                rule="9 payload kinds (empty, 1 B, text, random, 8191/8192/8193/16384, 20-70 KB low entropy, up to 200 KB highly compressible, 9-30 KB incompressible) x 11 codings (the bodies that are not valid for the announced coding are plain text or, a quarter of them, begin with a well-formed gzip member header carrying one optional field and go on with a reserved block type) x {CL, chunked, close} x {single-cut sweep over the first/last 40 bytes of the compressed body, 1-5 byte chunks, tiny first chunks then large, all general strategies}; a quarter of the single-coding runs put the coded body on the request (request decompression on); a fifth use a small bomb limit (fidelity is then demanded only for payloads within max(limit, 2048 x compressed)); a third shrink the decompressors' output buffer to 16...8191 bytes through the guarded knob; every 8th run stacks up to 5 codings against the layer limits; every 4th run is a chaos plan (captures incl. compressed ones, mutations, codings on both sides, small bomb limits, clock faults) with only the bound invariants. Non-trivial/distinct as for C01."),
    "C14": dict(flavor="san", level="exploration",
                claim="Ground truth + differential: multipart bodies wrapped by the actor around parts it chose are parsed through the public streaming API under EVERY single cut (bodies <= 1 KiB; 64 sampled cuts above) plus a seeded multi-cut schedule, and through the connection parser under random wire schedules; parts, file bytes, flags and parameters must equal the encoded parts and be identical for every chunking.",
                note="Boundary delimiters never occur inside generated part content (near-misses do); with LF-only line ends CR is not generated inside content. Simulated file layer for extracted files (no faults in this scenario).",
                technique="deterministic simulation: exhaustive single-cut sweep + seeded multi-cut schedules of the body stream, through the streaming API and through the simulated connection; ground-truth and differential oracles",
                design_ref="DESIGN.md section 7 C14",
                rule="boundaries (1-70 chars, '--', 'a', 'boundary', self-overlapping), 0-8 text/file parts, names/filenames with escaped quotes and backslashes, contents built from CR/LF/dash near-boundary fragments and random bytes, optional preamble/epilogue/part Content-Type, CRLF or LF line ends; 3/4 direct API (whole + every single cut + one multi-cut schedule per body), 1/4 through the connection parser (CL or chunked, reference vs variant chunking). evaluations counts every parse; distinct = distinct result signature."),
    "C15": dict(flavor="san", level="exploration",
                claim="Reference + differential: each seeded string is parsed whole through the public streaming API and compared with an independent implementation of the statement's rule (split on '&', first '=', drop only a final empty piece, decode per configuration), then under EVERY single cut (strings <= 80 bytes; 24 sampled cuts above) and one seeded multi-cut schedule, which must give the identical result; 1/5 of the runs go through the connection parser as a POST body.",
                note="The reference decoder models percent/plus decoding with the three invalid-encoding handlings, the two NUL-termination switches and %uHHHH decoding (the plans install a small best-fit map of their own through the public setter, so the reference knows it).",
                technique="deterministic simulation: exhaustive single-cut sweep + seeded multi-cut schedules of the parameter stream; executable reference model as oracle",
                design_ref="DESIGN.md section 7 C15",
                rule="strings over {a = & % + 1 NUL b f u G SP 0} of length 0-8 and 0-64, random byte strings of 65-2000 bytes with separators mixed in; decoder configurations: invalid handling x3, plusspace x2, NUL-terminates switches, %u decoding. evaluations counts every parse; distinct = distinct result signature."),
    "C08": dict(flavor="plain", level="exploration",
                claim="Cost is made a simulated quantity: a compiler-inserted callback counts libhtp basic blocks (virtual CPU clock, exactly repeatable, machine independent). Each pump pattern is run along a doubling ladder of repetition counts under whole, one-byte and geometric delivery; ticks per unit of allowed work (bytes given + bytes buffered + 1 per call) must not grow along the ladder, and no single call may exceed a fixed cost per byte given or buffered.",
                note="-O2 build without sanitizers (tick counts are per build; thresholds are ratios, plus one absolute per-call constant at 8x the measured maximum). zlib's own work is not counted (bounded by C07). Logging is off: the message list is the caller's to drain.",
                technique="deterministic simulation with a virtual CPU clock (basic-block counter seam); pump schedules along a doubling ladder x delivery schedules",
                design_ref="DESIGN.md section 7 C08",
                rule="generated pumps: 33 insertion sites (request method/path/query/protocol/header name/header value/cookie/credentials/content-type/transfer-encoding/host, urlencoded and multipart bodies, multipart part headers, status reason, response header value/content-encoding/transfer-encoding/content-length; whole lines repeated among request/response/interim headers, chunk-size lines, trailers, multipart part headers and bodies, before and after a message) x 44 unit strings (each alone and followed by an ordinary token) or 33 line units x 3 line ends x 3 deliveries, all enumerated by the run index (every odd run), interleaved with the 59 named pump patterns (header lines distinct/same/empty/folded/LF-CR/no-colon, folded continuations under pending lines with/without colon or with empty name x plain/tab/colon/whitespace continuations on both sides, NUL in values, trailers, CR runs, spaces, chunk-size lines, chunk extension, empty lines, parameters in body and query, cookies, multipart parts and near-boundary lines, Content-Encoding tokens, pipelined transactions, interim 100 responses, CR/NUL junk, unexpected body lines, long values) x {whole, 1 byte per call, geometric chunks} x k = 64..8192 (16384 thorough), all personalities. A case = one (pattern, delivery, personality) ladder; evaluations = executions of libhtp."),
    "C18": dict(reach=['c18.k_reached', 'c18.sustained_runs', 'c18.histories'], flavor="san", level="fault_enumeration",
                claim="Fault enumeration over a seeded corpus: for each history the fault-free run counts K allocations (malloc/calloc/realloc/strdup made by libhtp, zlib and the bundled LZMA decoder, from htp_config_create to htp_config_destroy); then the run is repeated with the k-th allocation failing for every k <= K (quick: at most 1200 evenly spaced k per history, plus every allocation that is a growth realloc - up to 500 per history), plus sustained-pressure runs in which every allocation from k on fails. Oracle: no ASan/UBSan report, every call returns, the per-call API contract keeps holding, teardown completes without double or invalid free.",
                note="Leaks under an injected failure are counted, not raised (the statement does not promise leak-freedom under failure). The corpus is seeded, not exhaustive (captures, CONNECT/upgrade, coded responses, multipart uploads, random scripts, and a family in which every container outgrows its initial capacity); within a history the enumeration over k is complete in the thorough tier.",
                technique="deterministic simulation with allocation-failure injection at the allocator seam, enumerated over every allocation index of seeded histories",
                design_ref="DESIGN.md section 7 C18",
                rule="corpus entries: .t captures, CONNECT scripts, compressed responses (gzip, deflate, lzma, two layers) with cookies/credentials/query parameters, multipart uploads with file extraction, grammar exchanges; random configuration, optional gap/close/abort, per-tx hook registration, tx disposal. A case = (history, k); non-trivial = the injected failure was actually reached; distinct = distinct behaviour signature of the history."),
    "C19": dict(reach=['c19.threaded_runs', 'c19.call_interleaved_runs', 'fault.sched.switches', 'c19.ownership_checks'], flavor="own", level="exploration",
                claim="Three deterministic oracles over 2-8 connections sharing one configuration: (1) each connection's transactions, bodies and callback sequence equal those of the same connection run alone, under call-level interleaving on one thread; (2) the same under one real thread per connection with a seeded baton scheduler that pre-empts at compiler-inserted basic-block callbacks inside libhtp (exactly one thread runnable, switch points decided by a PRNG stored in the plan); (3) a memory-ownership oracle on every load and store libhtp makes (trace-loads/trace-stores build): a store into the shared configuration, its hook lists or a writable static while parsing, or any access to a block allocated by another connection's task, is a violation on first execution, whatever the schedule.",
                note="TSan is not used for verdicts (blind under a serialising scheduler; free-running threads would be runtime monitoring). The writable-statics watch list is read from the freshly built objects with nm at every run. zlib's own code is not instrumented for loads/stores.",
                technique="deterministic simulation: seeded baton scheduler over real threads with basic-block pre-emption + call-level interleaving; solo-equivalence and memory-ownership oracles",
                design_ref="DESIGN.md section 7 C19",
                rule="2-8 connections per run (grammar scripts, CONNECT scripts, gzip responses, captures, mutations) on one htp_cfg_t; 1/3 call-level interleaving, 2/3 threaded with pre-emption every ~3/10/40/200/2000 basic blocks; every connection re-run alone and compared. Non-trivial = >= 1 transaction completed; distinct = behaviour signature xor schedule hash."),
    "C03": dict(reach=['probe.res.hdr.fold_peek_eoc', 'probe.req.hdr.fold_peek_eoc', 'probe.res.finalize.unread', 'cuts'], flavor="san", level="exploration",
                claim="Differential simulation: the same seeded well-formed history is delivered under two segmentations of the simulated wire and everything the statement lists is compared; exhaustive single-cut sweeps for short histories are visited by consecutive run indices, the rest is seeded sampling.",
                note="Domain is the CRLF grammar of DESIGN.md section 4 (bare-LF traffic is exercised only under the all-input properties); log messages, connection flags and return codes are not compared.",
                technique="deterministic simulation: seeded wire segmentation schedules, differential oracle against the maximal-chunk schedule of the same history",
                design_ref="DESIGN.md section 7 C03", rule="well-formed CRLF exchanges from the grammar (1-4 per connection), two skeletons (alternating / all requests then all responses); each plan is executed twice - maximal chunks vs. a variant chunking (single-cut sweep, geometric multi-cuts, 1-byte storm windows, cuts biased to CR/LF/colon/message edges, one byte per call) - and the canonical dump of every transaction, body bytes, raw header/trailer data and per-transaction callback order are compared. Non-trivial/distinct as for C01."),
    "C05": dict(reach=['probe.tx.yield_data_other', 'known_hit.res.finalize.as_body', 'known_hit.req.finalize.as_body', 'known_hit.res.line.as_body', 'fault.cb.stop', 'fault.cb.error', 'fault.close', 'fault.gap.accepted'], flavor="san", level="exploration",
                claim="Runtime monitor automaton evaluated inside every callback of every simulated run of the chaos scenario (all inputs, interleavings, closes, gaps, callback behaviours).",
                note="Raw header/trailer data receivers and the end-of-body marker are not ranked (not in the statement's callback list); three lenient-parsing call sites are listed as known findings and attributed by guarded probe.",
                technique="deterministic simulation with fault injection; per-transaction lifecycle automaton as an online invariant",
                design_ref="DESIGN.md section 7 C05", rule="chaos plans as for C01; oracle is the per-transaction lifecycle automaton evaluated inside every callback (order, monotone progress with the interim-100 back-edge, at-most-once completions, silence after TRANSACTION_COMPLETE) plus one end-of-run clause: a transaction whose two completion callbacks were delivered has had TRANSACTION_COMPLETE by the time the parser is destroyed (bounded liveness; runs in which a scripted callback returned STOP/ERROR are exempt)."),
    "C09": dict(reach=['rc.req.5', 'rc.res.5', 'rc.req.3', 'rc.res.3', 'rc.req.6', 'rc.res.6', 'rc.req.4', 'rc.res.4', 'rc.req.2', 'rc.res.2', 'sticky_followups.req', 'sticky_followups.res', 'handover_retries'], flavor="san", level="exploration",
                claim="Per-call contract checked after every API call of every simulated run, plus bounded progress of the stub that follows the documented hand-over protocol.",
                note="Byte counters are compared with bytes offered to a live stream (calls short-circuited by the STOP/ERROR/zero-length entry guards are not counted by libhtp and not by the oracle).",
                technique="deterministic simulation with fault injection; API-contract invariants after every call and bounded-liveness check of the DATA_OTHER hand-over",
                design_ref="DESIGN.md section 7 C09", rule="chaos plans as for C01; oracle evaluated after every data call: documented return code, DATA => whole chunk consumed, DATA_OTHER => strictly less, byte counters == bytes offered, sticky ERROR/STOP with no callbacks, bounded hand-over (no endless DATA_OTHER ping-pong), and a STOP/ERROR returned by a start/line/headers/trailer/response-complete callback is reported by that very call; CONNECT/upgrade connections of all three kinds with the tunnel payload sent and callback failures placed inside the mode switch."),
    "C10": dict(reach=['probe.req.buf.limit', 'probe.res.buf.limit', 'probe.tx.max_tx', 'probe.req.hdr.repeat_cap', 'probe.res.hdr.repeat_cap', 'probe.req.hdr.fold_cap', 'probe.res.hdr.fold_cap', 'c10.steady_runs'], flavor="san", level="exploration",
                claim="Retention invariants checked after every API call over seeded runs with small limits; steady-state heap flatness over long streaming connections measured with the allocation seam.",
                note="Private parser fields (in_buf_size, out_buf_size, in_header, out_header, transaction list) are read through the private headers.",
                technique="deterministic simulation with fault injection; retention invariants after every call, allocation-seam accounting for steady state",
                design_ref="DESIGN.md section 7 C10", rule="chaos plans biased to small field limits and max_tx; invariants after every call: retained line bytes <= hard limit (buffer + pending header while a line is being buffered), pending folded header below cap, header fields per message <= the configured number limit, transaction list <= max_tx+1; every 8th run a limit exerciser (traffic shaped to hit each cap, incl. a buffered continuation after an over-limit pending header); every 16th run a steady-state connection of 300-10000 periodic transactions with auto-destroy, logging off, disposal and slot recycling after every call, delivered in groups or (a third) with a sliding window in which neither direction is ever idle: live heap must not grow with the transaction index (group mode: no sample above the warm-up maximum + 4 KiB; sliding mode: late median <= early median + 4 KiB) and the transaction list stays short."),
}

ASSUMPTIONS = [
    "the IDS stub follows docs/QUICK_START 2.2 literally (remember consumed, suspend, retry the remainder after each chunk of the other direction)",
    "legal interleaving = every byte of request i is offered before the first byte of response i",
    "a callback never destroys the transaction it was invoked for (only earlier, completed, detached ones)",
    "UBSan 'applying zero offset to null pointer' (NULL+0) is benign by policy and only counted",
    "bytes are counted as offered only for calls that pass the entry guards (not after a sticky STOP/ERROR, not zero-length calls)",
]


def load_findings():
    p = os.path.join(VERIF, "known_findings.json")
    try:
        return json.load(open(p))
    except Exception:
        return {"findings": []}


def classify_crash(stderr_text, rc):
    """Turns a dead worker's stderr into a stable oracle id: sanitizer kind + first libhtp frame function."""
    kind = None
    m = re.search(r"ERROR: AddressSanitizer: ([\w-]+)", stderr_text)
    if m:
        kind = "asan." + m.group(1)
        if m.group(1) == "attempting":
            m2 = re.search(r"ERROR: AddressSanitizer: attempting ([\\w-]+)", stderr_text)
            kind = "asan." + (m2.group(1) if m2 else "bad-free")
    elif "HANG phase=" in stderr_text or rc == 78:
        kind = "hang"
    elif rc is not None and rc < 0:
        kind = "signal%d" % (-rc)
    else:
        kind = "exit%s" % rc
    func = "?"
    for line in stderr_text.splitlines():
        m = re.match(r"\s*#\d+ 0x[0-9a-f]+ in (\w+) \S*/htp/[\w/]+\.c", line)
        if m:
            func = m.group(1)
            break
    return "crash.%s@%s" % (kind, func)


def run_replay(exe, plan, as_prop=None, timeout=300):
    cmd = [exe, "replay", plan]
    if as_prop:
        cmd += ["--as", as_prop]
    r = subprocess.run(cmd, stdout=subprocess.PIPE, stderr=subprocess.PIPE, text=True, timeout=timeout, errors="replace")
    res = {"rc": r.returncode, "violated": False, "oracle": None, "hash": None, "detail": ""}
    m = re.search(r"RESULT violated=(\d) oracle=(\S+) hash=(\w+) sig=(\w+) executions=(\d+) detail=(.*)", r.stdout)
    if m:
        res.update(violated=m.group(1) == "1", oracle=m.group(2), hash=m.group(3), detail=m.group(6).strip())
    elif r.returncode not in (0, 1):
        res.update(violated=True, oracle=classify_crash(r.stderr + r.stdout, r.returncode), hash="crash", detail=(r.stderr.strip().splitlines() or [""])[-1][:300])
    return res


def merge_counters(dst, src):
    for k, v in src.items():
        dst[k] = dst.get(k, 0) + v


def run_search(exe, prop, seed, budget, outdir, workers, extra_args=()):
    """Runs the seeded search with a pool of worker processes; returns (violations, agg, dead_workers, wall)."""
    t0 = time.time()
    procs = []
    for w in range(workers):
        errf = open(os.path.join(outdir, "stderr-%d.txt" % w), "w")
        cmd = [exe, "run", "--prop", prop, "--seed", str(seed), "--start", str(w), "--stride", str(workers), "--budget-s", str(budget), "--out", outdir, "--worker", str(w)] + list(extra_args)
        procs.append(dict(w=w, p=subprocess.Popen(cmd, stdout=subprocess.PIPE, stderr=errf, text=True, errors="replace"), errf=errf, restarts=0, t0=time.time()))
    viols, agg = [], {"runs": 0, "executions": 0, "violations": 0, "nontrivial": 0, "counters": {}}
    pending = list(procs)
    while pending:
        pr = pending.pop(0)
        out, _ = pr["p"].communicate()
        pr["errf"].close()
        ended = False
        for line in out.splitlines():
            if line.startswith("V "):
                m = re.match(r"V idx=(\d+) seed=(\d+) oracle=(\S+) hash=(\w+) plan=(\S+) detail=(.*)", line)
                if m:
                    viols.append(dict(idx=int(m.group(1)), seed=int(m.group(2)), oracle=m.group(3), hash=m.group(4), plan=m.group(5), detail=m.group(6)))
            elif line.startswith("AGG "):
                a = json.loads(line[4:])
                for k in ("runs", "executions", "violations", "nontrivial"):
                    agg[k] += a[k]
                merge_counters(agg["counters"], a["counters"])
            elif line.startswith("END "):
                ended = True
        if not ended:
            # the worker died inside a run: attribute it to the run index it had announced
            errtxt = open(os.path.join(outdir, "stderr-%d.txt" % pr["w"]), errors="replace").read() + out
            sub = 0
            try:
                parts = open(os.path.join(outdir, "cur-%d" % pr["w"])).read().split()
                idx = int(parts[0])
                sub = int(parts[1]) if len(parts) > 1 else 0
            except Exception:
                idx = None
            oracle = classify_crash(errtxt, pr["p"].returncode)
            if idx is not None:
                plan = os.path.join(outdir, "viol-%d.plan" % idx)
                subprocess.run([exe, "emit", "--prop", prop, "--seed", str(seed), "--index", str(idx), "--sub", str(sub), "--out", plan])
                viols.append(dict(idx=idx, seed=None, oracle=oracle, hash="crash", plan=plan, detail=(errtxt.strip().splitlines() or [""])[-1][:300], crash=True))
                shutil.copy(os.path.join(outdir, "stderr-%d.txt" % pr["w"]), os.path.join(outdir, "crash-%d.stderr" % idx))
                agg["counters"]["worker_deaths"] = agg["counters"].get("worker_deaths", 0) + 1
                left = budget - (time.time() - t0)
                if left > 2 and pr["restarts"] < 3:
                    w = pr["w"]
                    errf = open(os.path.join(outdir, "stderr-%d.txt" % w), "w")
                    cmd = [exe, "run", "--prop", prop, "--seed", str(seed), "--start", str(idx + workers), "--stride", str(workers), "--budget-s", str(left), "--out", outdir, "--worker", str(w)] + list(extra_args)
                    pending.append(dict(w=w, p=subprocess.Popen(cmd, stdout=subprocess.PIPE, stderr=errf, text=True, errors="replace"), errf=errf, restarts=pr["restarts"] + 1, t0=time.time()))
            else:
                viols.append(dict(idx=-1, seed=None, oracle="machinery.worker_died_unattributed", hash="", plan="", detail=errtxt[-300:], machinery=True))
    # union of distinct behaviour signatures over workers
    sigs = set()
    for f in glob.glob(os.path.join(outdir, "sigs-*.bin")):
        a = array.array("Q")
        with open(f, "rb") as fh:
            data = fh.read()
        a.frombytes(data[: len(data) // 8 * 8])
        sigs.update(a)
    agg["distinct_sigs"] = len(sigs)
    return viols, agg, time.time() - t0


def gate_and_minimise(exe, prop, v, outdir):
    """Determinism gate + minimisation for one violation. Returns (status, replay_path, oracle, detail); status in ok|machinery."""
    plan = v["plan"]
    a = run_replay(exe, plan)
    b = run_replay(exe, plan)
    if not (a["violated"] and b["violated"] and a["oracle"] == b["oracle"] and a["hash"] == b["hash"]):
        return ("machinery", plan, v["oracle"], "replay gate failed: search said %s, replays said %s/%s (hash %s/%s)" % (v["oracle"], a["oracle"], b["oracle"], a["hash"], b["hash"]))
    oracle = a["oracle"]
    minp = os.path.join(outdir, "min-%s-%d.plan" % (re.sub(r"[^A-Za-z0-9_.@-]", "_", oracle)[:80], v["idx"]))
    r = subprocess.run([exe, "shrink", plan, "--oracle", oracle, "--out", minp], stdout=subprocess.PIPE, stderr=subprocess.DEVNULL, text=True)
    if r.returncode == 0 and os.path.exists(minp):
        c = run_replay(exe, minp)
        if c["violated"] and c["oracle"] == oracle:
            return ("ok", minp, oracle, c["detail"] or a["detail"])
    return ("ok", plan, oracle, a["detail"])


MUTANT_RUN = os.path.realpath(REPO) != "/repo"   # checks pointed at a scratch tree (seeded changes) never touch the real evidence


def write_evidence(prop, tier, seed, level, coverage, wall, violations):
    if MUTANT_RUN:
        return
    os.makedirs(os.path.join(VERIF, "evidence"), exist_ok=True)
    ev = {"property_id": prop, "tier": tier, "seed": seed, "level": level, "coverage": coverage, "assumptions": ASSUMPTIONS, "wall_s": round(wall, 3), "violations": violations}
    p = os.path.join(VERIF, "evidence", prop + ".json")
    with open(p + ".tmp", "w") as f:
        json.dump(ev, f, indent=1, sort_keys=True)
    os.rename(p + ".tmp", p)


def check_property(prop, tier, seed, replay=None):
    t_start = time.time()
    spec = PROPS[prop]
    try:
        exe = build(spec["flavor"])
    except BuildError as e:
        print("MACHINERY-ERROR: build failed\n%s" % e)
        return 2
    if replay:
        r = run_replay(exe, replay, as_prop=None)
        print("replay %s: violated=%s oracle=%s detail=%s" % (replay, r["violated"], r["oracle"], r["detail"]))
        if r["violated"]:
            print("VIOLATION property=%s replay=%s" % (prop, replay))
            return 1
        return 0
    if spec["flavor"] == "own":
        # watch list of the shared-memory oracle: writable-section symbols of the freshly built (unsanitised) libhtp objects
        try:
            plain = build("plain")
            names = sorted(set(w["sym"] for w in (lib_info(plain).get("writable_statics") or []) if not w["sym"].startswith("__")))
            r = sh(["nm", "-S", exe])
            items = []
            for line in r.stdout.splitlines():
                parts = line.split()
                if len(parts) == 4 and parts[3] in names and parts[2] in "DdBb":
                    items.append("0x%s:%d:%s" % (parts[0], int(parts[1], 16), parts[3]))
            os.environ["VERIF_STATICS"] = ",".join(items)
            print("shared-memory watch list:", ", ".join(i.split(":")[2] for i in items) or "(none)")
        except BuildError as e:
            print("MACHINERY-ERROR: build failed\n%s" % e)
            return 2
    budget = float(os.environ.get("VERIF_BUDGET_S", spec.get("budget", {}).get(tier, 45 if tier == "quick" else 600)))
    workers = int(os.environ.get("VERIF_WORKERS", 14))
    outdir = os.path.join(OUT, prop + ("-mut-" + os.path.basename(os.path.realpath(REPO)) if MUTANT_RUN else ""))
    shutil.rmtree(outdir, ignore_errors=True)
    os.makedirs(outdir)
    print("VERIF_SEED=%d property=%s tier=%s budget=%.0fs workers=%d exe=%s" % (seed, prop, tier, budget, workers, os.path.basename(exe)))
    findings = load_findings()
    known = [f for f in findings.get("findings", []) if f.get("status") == "known"]
    exclude = sorted(set(f["trigger"] for f in known if f.get("trigger")))
    known_sites = sorted(set(f["site"] for f in known if f.get("site")))
    extra = (["--exclude", ",".join(exclude)] if exclude else []) + (["--known", ",".join(known_sites)] if known_sites else [])
    os.environ["VERIF_KNOWN"] = ",".join(known_sites)
    known_lines, known_confirmed = [], []
    for f in known:
        if f.get("property") != prop:
            continue
        wp = os.path.join(VERIF, f["witness"])
        if f.get("site"):
            # call-site findings: replayed without the exemption, the witness must still fail with the recorded oracle id
            env_save = os.environ.pop("VERIF_KNOWN", None)
            r = run_replay(exe, wp)
            if env_save is not None:
                os.environ["VERIF_KNOWN"] = env_save
        else:
            r = run_replay(exe, wp)
        if r["violated"] and r["oracle"] == f.get("oracle"):
            known_lines.append("KNOWN-FINDING: property=%s %s [%s: %s]" % (prop, f["what"], f["id"], r["oracle"]))
            known_confirmed.append(f["id"])
        elif r["violated"]:
            # the witness fails, but differently from what is recorded: that is a different violation and is reported
            print("VIOLATION property=%s replay=%s" % (prop, wp))
            print("  witness of %s now fails with %s instead of %s" % (f["id"], r["oracle"], f.get("oracle")))
            return 1
        else:
            print("note: witness of known finding %s no longer fails (fixed?)" % f["id"])
    # fixed findings suppress nothing: their witnesses are part of every run and must pass
    regressions = []
    fixed_replayed = 0
    for f in findings.get("findings", []):
        if f.get("status") != "fixed" or f.get("property") != prop:
            continue
        wp = os.path.join(VERIF, f["witness"])
        if not os.path.exists(wp):
            continue
        r = run_replay(exe, wp)
        fixed_replayed += 1
        if r["violated"]:
            regressions.append(dict(oracle=r["oracle"], replay=wp, detail="witness of fixed finding %s fails again: %s" % (f["id"], r["detail"]), idx=-1))
    viols, agg, wall = run_search(exe, prop, seed, budget, outdir, workers, extra)
    status = 0
    reported = list(regressions)
    valgrind_stats = None
    if prop == "C01" and not MUTANT_RUN or (prop == "C01" and os.environ.get("VERIF_VALGRIND") == "1"):
        # second net for what ASan/UBSan cannot see (reads of uninitialised memory): a sample of the same plans replayed
        # on the unsanitised build under valgrind memcheck
        try:
            plain = build("plain")
            n = int(os.environ.get("VERIF_VALGRIND_PLANS", 28 if tier == "quick" else 600))
            vdir = os.path.join(outdir, "valgrind")
            os.makedirs(vdir, exist_ok=True)

            def vg(i):
                plan = os.path.join(vdir, "p%d.plan" % i)
                subprocess.run([plain, "emit", "--prop", "C01", "--seed", str(seed), "--index", str(i), "--out", plan])
                r = subprocess.run(["valgrind", "-q", "--error-exitcode=9", "--track-origins=no", plain, "replay", plan], stdout=subprocess.PIPE, stderr=subprocess.PIPE, text=True, errors="replace")
                return (i, plan, r.returncode, r.stderr)
            t0v = time.time()
            with ThreadPoolExecutor(max_workers=workers) as ex:
                res = list(ex.map(vg, range(n)))
            bad = [r for r in res if r[2] == 9]
            valgrind_stats = {"plans_replayed_under_valgrind": n, "errors": len(bad), "wall_s": round(time.time() - t0v, 1)}
            for (i, plan, rc, err) in bad[:2]:
                kind = "error"
                for line in err.splitlines():
                    m = re.match(r"==\d+== ([A-Z][^=]*)$", line)
                    if m:
                        kind = re.sub(r"[^A-Za-z]+", "_", m.group(1).strip())[:50]
                        break
                func = "?"
                for line in err.splitlines():
                    m = re.match(r"==\d+==\s+(?:at|by) 0x[0-9A-F]+: (\w+) \((?:htp|bstr|Lz)", line)
                    if m:
                        func = m.group(1)
                        break
                reported.append(dict(oracle="C01.valgrind.%s@%s" % (kind, func), replay=plan, detail=(err.strip().splitlines() or [""])[0][:200], idx=i))
        except BuildError as e:
            print("MACHINERY-ERROR: plain build failed\n%s" % e)
            return 2
    machinery = [v for v in viols if v.get("machinery")]
    by_oracle = {}
    for v in sorted([v for v in viols if not v.get("machinery")], key=lambda v: v["idx"]):
        by_oracle.setdefault(v["oracle"], v)
    for oracle, v in list(by_oracle.items())[:int(os.environ.get('VERIF_MAX_REPORT', '4'))]:
        st, path, o, detail = gate_and_minimise(exe, prop, v, outdir)
        if st == "machinery":
            machinery.append(dict(oracle="machinery.gate", detail=detail))
            continue
        reported.append(dict(oracle=o, replay=path, detail=detail, idx=v["idx"]))
    for l in known_lines:
        print(l)
    for r in reported:
        print("VIOLATION property=%s replay=%s" % (prop, r["replay"]))
        print("  oracle=%s run_index=%d seed=%d detail=%s" % (r["oracle"], r["idx"], seed, r["detail"]))
        status = 1
    if machinery and status == 0:
        for m in machinery:
            print("MACHINERY-ERROR: %s %s" % (m["oracle"], m.get("detail", "")))
        status = 2
    # ---- evidence
    samples = []
    for f in sorted(glob.glob(os.path.join(outdir, "sample-*.plan")))[:3]:
        samples.append({"plan_file": os.path.relpath(f, VERIF), "plan": open(f, errors="replace").read()[:6000]})
    if not samples:
        samples.append({"note": "no run qualified as a short non-trivial sample in this batch"})
    cnt = agg["counters"]
    faults = {k: v for k, v in cnt.items() if k.startswith("fault.")}
    info = lib_info(exe)
    wall_total = time.time() - t_start
    coverage = {
        "evaluations": agg["executions"],
        "distinct_nontrivial": agg["distinct_sigs"],
        "rule": spec["rule"],
        "samples": samples,
        "simulated_runs": agg["runs"],
        "nontrivial_runs": agg["nontrivial"],
        "runs_per_hour": int(agg["runs"] / max(wall, 1e-3) * 3600),
        "seeds_per_hour": int(agg["runs"] / max(wall, 1e-3) * 3600),
        "run_index_range": [0, agg["runs"]],
        "simulated_time_us": cnt.get("calls", 0) * 1000 + cnt.get("clock.reads", 0) * 7,
        "virtual_cpu_ticks": cnt.get("ticks", 0),
        "faults_fired": faults,
        "counters": cnt,
        "probes_at_zero": sorted(k for k in spec.get("reach", []) if cnt.get(k, 0) == 0),
        "components": COMPONENTS,
        "known_findings_confirmed": known_confirmed,
        "fixed_finding_witnesses_replayed": fixed_replayed,
        "excluded_triggers": exclude,
        "known_call_sites_exempted": known_sites,
        "known_call_site_hits": {k[10:]: v for k, v in cnt.items() if k.startswith("known_hit.")},
        "unredirected_symbols": info.get("unredirected"),
        "writable_statics": info.get("writable_statics"),
        "violations_reported": reported,
        "valgrind": valgrind_stats,
        "search_wall_s": round(wall, 2),
        "workers": workers,
    }
    write_evidence(prop, tier, seed, spec["level"], coverage, wall_total, len(reported))
    print("%s: %d simulated runs, %d executions, %d distinct non-trivial behaviours, %d violations, %.1fs" % (prop, agg["runs"], agg["executions"], agg["distinct_sigs"], len(reported), wall_total))
    return status


NOT_APPLICABLE = {
    "C12": "pure function of (path bytes, decoder configuration): no schedule, clock, fault, interleaving or second party for a simulator to control; deciding it is reference-model enumeration over strings, a different technique (DESIGN.md section 8)",
    "C13": "pure function of the request-target string (htp_parse_uri / htp_parse_hostport): nothing for deterministic simulation to schedule or fault (DESIGN.md section 8)",
    "C17": "sequential abstract data types and pure string/number functions compared with a model over operation sequences; no concurrency, I/O or time. Their only fault surface (allocation failure during growth) is inside C18's enumeration (DESIGN.md section 8)",
}

HOOK_COMMITS_PATTERN = "verif hooks:"


def write_manifest():
    log = subprocess.run(["git", "-C", REPO, "log", "--format=%H %s"], stdout=subprocess.PIPE, text=True).stdout.splitlines()
    hook_commits = [l.split()[0] for l in log if HOOK_COMMITS_PATTERN in l]
    checks = []
    for pid in sorted(PROPS):
        sp = PROPS[pid]
        if not sp.get("registered", True):
            continue
        checks.append({
            "property_id": pid,
            "quick_cmd": "./check %s --tier quick" % pid,
            "thorough_cmd": "./check %s --tier thorough" % pid,
            "evidence_file": "evidence/%s.json" % pid,
            "replay_cmd_template": "./check %s --replay {path}" % pid,
            "engine": "htpsim",
            "level_claimed": {"category": sp["level"], "text": sp["claim"], "design_ref": sp.get("design_ref", "DESIGN.md section 7")},
            "level_note": sp["note"],
            "technique": sp["technique"],
        })
    na = []
    all_ids = [json.loads(l)["id"] for l in open(os.path.join(VERIF, "properties.jsonl")) if l.strip()]
    for pid in all_ids:
        if pid in PROPS and PROPS[pid].get("registered", True):
            continue
        if pid in NOT_APPLICABLE:
            na.append({"property_id": pid, "reason": NOT_APPLICABLE[pid]})
        else:
            na.append({"property_id": pid, "reason": "not claimed yet: the simulated check for this property is designed (DESIGN.md section 7) but not finished/validated; it is applicable to this technique and will be registered once it passes the false-alarm control"})
    man = {
        "version": 1,
        "setup_cmd": "./check --setup",
        "hooks": {
            "guard": GUARD,
            "enable": "every check compiles /repo/htp/*.c and /repo/htp/lzma/*.c itself with clang -D%s (plus sanitizer and -fsanitize-coverage flags); allocation/clock/file symbols are redirected with objcopy --redefine-syms" % GUARD,
            "baseline_off_cmd": "make -C /repo check",
            "source_commits": hook_commits,
            "add_only": True,
        },
        "engines": [{"name": "htpsim", "path": "sim/", "serves_properties": [c["property_id"] for c in checks],
                     "kind_free_text": "deterministic simulator written for this repository: seeded actors + wire + IDS stub around the real libhtp, seams for allocator/clock/files/CPU, plan files as replay artefacts, ddmin shrinker; driver ./check (Python 3)"}],
        "checks": checks,
        "not_applicable": na,
        "notes": "One seed (VERIF_SEED) decides every run; violations are gated (two fresh-process replays with identical event-log hash) and minimised before they are reported. Genuine defects found so far are repaired by 'fix:' commits in /repo or listed in known_findings.json; see DESIGN.md section 9.",
    }
    with open(os.path.join(VERIF, "MANIFEST.json"), "w") as f:
        json.dump(man, f, indent=1)
    return man


def main(argv):
    if argv and argv[0] == "--manifest":
        m = write_manifest()
        print("MANIFEST.json written: %d checks, %d not applicable/unclaimed" % (len(m["checks"]), len(m["not_applicable"])))
        return 0
    if argv and argv[0] == "--setup":
        try:
            for fl in ("san", "plain", "own"):
                print("built", build(fl))
        except BuildError as e:
            print("BUILD FAILED\n%s" % e)
            return 2
        return 0
    if not argv or argv[0] not in PROPS:
        print(__doc__)
        return 2
    prop = argv[0]
    tier = os.environ.get("VERIF_TIER", "quick")
    replay = None
    i = 1
    while i < len(argv):
        if argv[i] == "--tier" and i + 1 < len(argv):
            tier = argv[i + 1]; i += 2
        elif argv[i] == "--replay" and i + 1 < len(argv):
            replay = argv[i + 1]; i += 2
        else:
            i += 1
    if tier not in ("quick", "thorough"):
        tier = "quick"
    try:
        seed = int(os.environ.get("VERIF_SEED", "1"))
    except ValueError:
        seed = 1
    return check_property(prop, tier, seed, replay)

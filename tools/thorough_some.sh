#!/bin/bash
# usage: tools/thorough_some.sh <seed> <prop> [prop ...]
SEED=$1; shift
for P in "$@"; do
  VERIF_SEED=$SEED ./check $P --tier thorough 2>&1 | grep -v "^KNOWN-FINDING" | grep "VIOLATION\|oracle=\|simulated runs\|MACHINERY" | cut -c1-300
done

#!/bin/bash
# usage: tools/seeded_regress.sh [id ...]     (default: every /verif/seeded/<id>)
# Re-validates the checks against the kept seeded breaking changes: for each one a scratch worktree of /repo HEAD is created
# under /tmp, the change applied, the check of its property run against that tree (VERIF_REPO, no evidence written), and the
# worktree removed again. /repo itself is never touched. Prints one line per change; exit 1 if a change is no longer caught.
cd /verif
IDS="$@"; [ -z "$IDS" ] && IDS=$(ls seeded | grep -v '^benign-')   # (the behaviour-preserving changes are handled by tools/benign_eval.sh)
BAD=0
for ID in $IDS; do
  P=${ID%%-*}
  WT=/tmp/wt-regress-$ID
  git -C /repo worktree remove --force $WT >/dev/null 2>&1
  git -C /repo worktree add -q --detach $WT HEAD || { echo "$ID: cannot create worktree"; BAD=1; continue; }
  cp /repo/htp/htp_version.h $WT/htp/ 2>/dev/null; cp /repo/htp_config_auto_gen.h $WT/ 2>/dev/null
  # (later fix: commits may have moved the context of a change: fall back to a fuzzy apply)
  if ! git -C $WT apply /verif/seeded/$ID/patch.diff 2>/dev/null; then
    if ! ( cd $WT && patch -p1 -F 3 -s --no-backup-if-mismatch < /verif/seeded/$ID/patch.diff >/dev/null 2>&1 ); then echo "$ID: patch no longer applies to HEAD (skipped)"; git -C /repo worktree remove --force $WT; continue; fi
  fi
  LOG=$(mktemp)
  VERIF_REPO=$WT VERIF_BUDGET_S=${MUT_BUDGET:-45} VERIF_WORKERS=${MUT_WORKERS:-14} ./check $P --tier quick > $LOG 2>&1; RC=$?
  ORACLE=$(grep -m1 "oracle=" $LOG | sed 's/.*oracle=\([^ ]*\).*/\1/'); IDX=$(grep -m1 "run_index=" $LOG | sed 's/.*run_index=\([-0-9]*\).*/\1/')
  if [ $RC = 1 ]; then echo "$ID: caught by $P oracle=$ORACLE first_run=$IDX"; else echo "$ID: NOT CAUGHT by $P (exit $RC)"; BAD=1; fi
  rm -f $LOG; rm -rf /verif/out/$P-mut-wt-regress-$ID
  git -C /repo worktree remove --force $WT
done
git -C /repo worktree prune
exit $BAD

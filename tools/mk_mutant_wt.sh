#!/bin/bash
# usage: tools/mk_mutant_wt.sh <dir under /tmp>   - scratch worktree of /repo HEAD for a sub-agent, ready for `make check`
WT=$1
git -C /repo worktree remove --force $WT >/dev/null 2>&1
git -C /repo worktree add -q --detach $WT HEAD || exit 1
# the generated build system (ignored files), without objects
rsync -a --exclude='.git' --exclude='*.o' --exclude='*.lo' --exclude='*.la' --exclude='.libs' --exclude='test/test_all' --exclude='test/*.log' --exclude='test/*.trs' --exclude='autom4te.cache' \
  --ignore-existing /repo/ $WT/
mkdir -p $WT/seeded
( cd $WT && make -j8 >/dev/null 2>&1 && echo "worktree $WT built" )

#!/bin/bash
# usage: tools/quick_all.sh [budget seconds, default 20] [workers, default 14]  - every quick check briefly (before committing generator / oracle changes)
B=${1:-20}; W=${2:-14}; BAD=0
for P in C01 C02 C03 C04 C05 C06 C07 C08 C09 C10 C11 C14 C15 C16 C18 C19; do
  OUT=$(VERIF_WORKERS=$W VERIF_BUDGET_S=$B VERIF_VALGRIND_PLANS=0 ./check $P --tier quick 2>&1); RC=$?
  echo "$OUT" | grep "VIOLATION\|oracle=\|MACHINERY" | cut -c1-250
  echo "$P exit=$RC $(echo "$OUT" | grep -o '[0-9]* simulated runs')"
  [ $RC = 0 ] || BAD=1
done
exit $BAD

#!/bin/bash
# usage: tools/determinism.sh [runs per property, default 600] [seed]
# Determinism self-test of the simulator: for every property the first N run indices of a seed are executed
#   (a) by one process, (b) again by one process, (c) by three processes that share the indices (stride 3),
# in fresh processes each time, and the per-run (event-log hash, behaviour signature, executions, verdict) lines are compared.
# Any difference means a source of nondeterminism escaped the seams (replay and minimisation would not be trustworthy).
cd /verif
N=${1:-600}; SEED=${2:-5}
D=$(mktemp -d /tmp/verifdet.XXXXXX)
BAD=0
for P in C01 C02 C03 C04 C05 C06 C07 C08 C09 C10 C11 C14 C15 C16 C18 C19; do
  FL=$(python3 -c "import checklib; print(checklib.PROPS['$P']['flavor'])")
  EXE=$(python3 -c "import checklib; print(checklib.build('$FL'))") || exit 2
  ENVX=""; [ $FL = own ] && ENVX="VERIF_STATICS=$(python3 -c "import checklib; print(checklib.statics_env(checklib.build('own')))" 2>/dev/null)"
  M=$N; [ $P = C18 ] && M=$((N/30+3)); [ $P = C14 ] && M=$((N/4)); [ $P = C08 ] && M=$((N/4)); [ $P = C19 ] && M=$((N/4))
  mkdir -p $D/$P
  ( env $ENVX $EXE run --prop $P --seed $SEED --start 0 --stride 1 --max-runs $M --budget-s 3000 --max-violations 1000000 --out $D/$P --worker a --hashes $D/$P/a.txt >/dev/null 2>&1 ) &
  ( env $ENVX $EXE run --prop $P --seed $SEED --start 0 --stride 1 --max-runs $M --budget-s 3000 --max-violations 1000000 --out $D/$P --worker b --hashes $D/$P/b.txt >/dev/null 2>&1 ) &
  for w in 0 1 2; do ( env $ENVX $EXE run --prop $P --seed $SEED --start $w --stride 3 --max-runs $(( (M + 2 - w) / 3 )) --budget-s 3000 --max-violations 1000000 --out $D/$P --worker c$w --hashes $D/$P/c$w.txt >/dev/null 2>&1 ) & done
  wait
  sort -n $D/$P/c0.txt $D/$P/c1.txt $D/$P/c2.txt > $D/$P/c.txt
  LA=$(wc -l < $D/$P/a.txt)
  if cmp -s $D/$P/a.txt $D/$P/b.txt && cmp -s $D/$P/a.txt $D/$P/c.txt && [ "$LA" -ge 1 ]; then echo "$P: $LA runs x 3 executions identical (hash, signature, executions, verdict)"; else echo "$P: DIFFERENCE"; diff $D/$P/a.txt $D/$P/b.txt | head -3; diff $D/$P/a.txt $D/$P/c.txt | head -3; BAD=1; fi
done
rm -rf $D
exit $BAD

#!/bin/bash
# usage: tools/benign_eval.sh <worktree with a behaviour-preserving change applied> <id>
# False-alarm control against a changed tree: every quick check is run against the worktree (VERIF_REPO); any VIOLATION line
# is printed. The change is kept under /verif/seeded/benign-<id>/ with the outcome.
WT=$1; ID=$2
cd /verif
mkdir -p seeded/benign-$ID; cp $WT/seeded/patch.diff $WT/seeded/meta.json seeded/benign-$ID/ 2>/dev/null
( cd $WT && make check >/dev/null 2>&1; grep -c "PASSED  \] 341 tests" test/test_all.log ) > /tmp/benign-$ID-suite.txt
echo "suite_pass=$(cat /tmp/benign-$ID-suite.txt)"
RES=seeded/benign-$ID/verif_result.json
echo "{\"id\": \"benign-$ID\", \"suite_341_pass\": $(cat /tmp/benign-$ID-suite.txt), \"checks\": [" > $RES
FIRST=1
for P in C01 C02 C03 C04 C05 C06 C07 C08 C09 C10 C11 C14 C15 C16 C18 C19; do
  LOG=/tmp/benign-$ID-$P.log
  VERIF_REPO=$WT VERIF_BUDGET_S=${BEN_BUDGET:-30} VERIF_WORKERS=${BEN_WORKERS:-14} ./check $P --tier quick > $LOG 2>&1; RC=$?
  ORACLE=$(grep -m1 "oracle=" $LOG | sed 's/.*oracle=\([^ ]*\).*/\1/')
  echo "$P: exit=$RC ${ORACLE:+oracle=$ORACLE}"
  [ $FIRST = 1 ] || echo "," >> $RES; FIRST=0
  echo "  {\"property\": \"$P\", \"exit\": $RC, \"first_oracle\": \"${ORACLE:-}\"}" >> $RES
  rm -rf /verif/out/$P-mut-$(basename $WT)
done
echo "]}" >> $RES

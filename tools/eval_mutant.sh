#!/bin/bash
# usage: tools/eval_mutant.sh <worktree> <id> <prop> [more props...]
# Verifies a seeded breaking change in its scratch worktree (suite still green, demonstration fails with / passes without the
# change), copies it to /verif/seeded/<id>/ and runs the named checks against that tree (VERIF_REPO; /repo is never touched,
# evidence files are not written). Result: /verif/seeded/<id>/verif_result.json
WT=$1; ID=$2; shift 2
set -u
cd $WT || exit 2
git diff -- htp > /tmp/mut-$ID-current.diff
if ! diff -q /tmp/mut-$ID-current.diff seeded/patch.diff >/dev/null; then echo "NOTE: worktree diff differs from seeded/patch.diff; restoring the seeded patch"; git checkout -- htp; git apply seeded/patch.diff || exit 3; fi
make check >/dev/null 2>&1; T1=$(grep -c "PASSED  \] 341 tests" test/test_all.log)
bash seeded/run.sh >/tmp/mut-$ID-with.log 2>&1; R1=$?
# (git stash is shared by all worktrees of a repository: never use it here)
git diff -- htp > /tmp/mut-$ID-current.diff
if ! diff -q /tmp/mut-$ID-current.diff seeded/patch.diff >/dev/null; then echo "NOTE: worktree diff differs from seeded/patch.diff; restoring the seeded patch"; git checkout -- htp; git apply seeded/patch.diff || exit 3; fi
git checkout -- htp; make >/dev/null 2>&1
bash seeded/run.sh >/tmp/mut-$ID-without.log 2>&1; R0=$?
git apply seeded/patch.diff; make >/dev/null 2>&1
echo "tests_pass_with_patch=$T1 demo_rc_with_patch=$R1 demo_rc_without_patch=$R0"
mkdir -p /verif/seeded/$ID; cp seeded/patch.diff seeded/meta.json seeded/run.sh /verif/seeded/$ID/ 2>/dev/null; cp seeded/demo.* /verif/seeded/$ID/ 2>/dev/null
cd ${EVAL_VERIF:-/verif}   # (EVAL_VERIF: a frozen copy of /verif to run the checks from, so that /verif can be edited meanwhile)
RES="/verif/seeded/$ID/verif_result.json"
echo "{\"id\": \"$ID\", \"confirmed_in_scratch_worktree\": {\"suite_341_pass_with_change\": $T1, \"demo_exit_with_change\": $R1, \"demo_exit_without_change\": $R0}, \"checks\": [" > $RES
FIRST=1
for P in "$@"; do
  LOG=/tmp/mut-$ID-$P.log
  VERIF_REPO=$WT VERIF_BUDGET_S=${MUT_BUDGET:-45} VERIF_WORKERS=${MUT_WORKERS:-8} ./check $P --tier quick > $LOG 2>&1; RC=$?
  ORACLE=$(grep -m1 "oracle=" $LOG | sed 's/.*oracle=\([^ ]*\).*/\1/'); IDX=$(grep -m1 "run_index=" $LOG | sed 's/.*run_index=\([-0-9]*\).*/\1/')
  echo "check $P: exit=$RC oracle=${ORACLE:-none} run_index=${IDX:-}"; grep "simulated runs" $LOG | cut -c1-200
  [ $FIRST = 1 ] || echo "," >> $RES; FIRST=0
  echo "  {\"property\": \"$P\", \"cmd\": \"VERIF_REPO=<scratch worktree with the change> VERIF_BUDGET_S=${MUT_BUDGET:-45} ./check $P --tier quick\", \"exit\": $RC, \"caught\": $([ $RC = 1 ] && echo true || echo false), \"first_oracle\": \"${ORACLE:-}\", \"first_run_index\": \"${IDX:-}\"}" >> $RES
done
echo "]}" >> $RES

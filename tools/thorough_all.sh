#!/bin/bash
# every thorough check in sequence (background exploration); prints the summary line and every alarm
SEED=${1:-1}
for P in C01 C02 C03 C04 C05 C06 C07 C08 C09 C10 C11 C14 C15 C16 C18 C19; do
  VERIF_SEED=$SEED ./check $P --tier thorough 2>&1 | grep -v "^KNOWN-FINDING" | grep "VIOLATION\|oracle=\|simulated runs\|MACHINERY" | cut -c1-300
done

# Prints the task text given to a fresh sub-agent that seeds a property-breaking change (the property text comes from /tmp/prop-<id>.txt,
# written from properties.jsonl: id, title, statement, quantifier text - nothing from /verif). usage: WT_SUFFIX=<x> python3 this.py <Cnn> "<area hint>"
import sys
pid=sys.argv[1]
hint=sys.argv[2] if len(sys.argv)>2 else ''
prop=open('/tmp/prop-%s.txt'%pid).read()
import os
suffix=os.environ.get('WT_SUFFIX','b' if hint else '')
wt='/tmp/wt-%s%s'%(pid,suffix)
print(f"""You are helping to test a verification tool by producing a realistic, subtle bug. Work ONLY inside {wt} (a scratch git worktree of OISF/libhtp 0.5.47, a streaming HTTP/1.x parser in C). Never read or write /repo or /verif.

The worktree builds and tests with:  make -C {wt} check   (about 10-20 s; success = the line "[  PASSED  ] 341 tests." in {wt}/test/test_all.log). The public API is in {wt}/htp/*.h (htp.h, htp_connection_parser.h, htp_config.h, htp_transaction.h, htp_multipart.h, htp_urlencoded.h); docs/QUICK_START explains usage; test/test.c and test/test_main.cpp show how the API is driven. A static library is at {wt}/htp/.libs/libhtp.a after a build (link with -lz).

The following semantic property is supposed to hold for libhtp:

{prop}
YOUR TASK: make a SMALL source change under {wt}/htp/ that BREAKS this property, while (1) the tree still compiles and (2) the full existing test suite still passes unchanged (341 tests). The change must be REALISTIC (the kind of slip a maintainer could make in a refactor, clean-up or optimisation: an off-by-one, a missed state reset, a condition slightly too narrow or too wide, a cached value not invalidated, an early return that skips a step, a swapped order...) and SUBTLE: it must need something specific to manifest - a particular chunk boundary or interleaving, a fault or callback return value at a particular point, a multi-step sequence of calls, an unusual but legal input, or two cooperating sites that each look fine alone. It must NOT be something that ordinary use or a trivial smoke test exposes at once, and it must not simply crash on every input. Do not add new API, do not touch tests.

{('AREA TO TARGET (another engineer already seeded a bug elsewhere; yours must be in this area): ' + hint) if hint else ''}

DELIVERABLES, all inside {wt}/seeded/:
  patch.diff   - output of `git -C {wt} diff -- htp/` for your change (only files under htp/)
  demo.c       - a small standalone C program using the public libhtp API that exits 0 and prints PASS on the UNMODIFIED code and exits non-zero and prints FAIL with your change applied (it should check the property-relevant observable, e.g. parsed fields, callback data/order, return codes, flags, memory behaviour under a sanitizer...)
  run.sh       - builds demo.c against the worktree (e.g. cc -I{wt} -I{wt}/htp demo.c {wt}/htp/.libs/libhtp.a -lz -o demo) and runs it; if the demonstration needs a sanitizer or needs to compile the library sources directly, do that in run.sh
  meta.json    - {{"property": "{pid}", "summary": "<one paragraph: what you changed and why it breaks the property>", "needs": "<the specific condition needed for it to manifest>", "files": ["htp/..."]}}

VERIFY YOURSELF before finishing: with the patch applied `make -C {wt} check` passes all 341 tests and run.sh reports FAIL; with the patch reverted run.sh reports PASS (IMPORTANT: do NOT use `git stash` - the stash is shared by all worktrees of the repository and other agents are working in sibling worktrees; instead save your change with `git -C {wt} diff -- htp/ > {wt}/seeded/patch.diff`, revert with `git -C {wt} checkout -- htp/`, rebuild, test, then re-apply with `git -C {wt} apply {wt}/seeded/patch.diff`) and rebuild so the worktree ends with the patch APPLIED. Keep the final report short: what the change is, what it needs to manifest, and the verification results.""")

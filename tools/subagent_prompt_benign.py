# Prints the task text given to a fresh sub-agent that makes a behaviour-preserving change (false-alarm control). usage: python3 this.py "<area>" <worktree>
import sys
area=sys.argv[1]; wt=sys.argv[2]
print(f"""You are helping to test a verification tool for FALSE ALARMS by producing a realistic BEHAVIOUR-PRESERVING change. Work ONLY inside {wt} (a scratch git worktree of OISF/libhtp 0.5.47, a streaming HTTP/1.x parser in C). Never read or write /repo or /verif.

The worktree builds and tests with:  make -C {wt} check   (about 10-20 s; success = the line "[  PASSED  ] 341 tests." in {wt}/test/test_all.log). The public API is in {wt}/htp/*.h; docs/QUICK_START explains usage.

YOUR TASK: make a NON-TRIVIAL but CORRECT refactoring, clean-up or optimisation (roughly 20-100 changed lines) under {wt}/htp/ in this area: {area}

It must preserve every externally observable behaviour of the library for ALL inputs and call sequences: parsed fields, flags, the sequence and arguments' content of callbacks as seen through the public hook API (the concatenation of body data and its association to transactions must be identical; where the task area says so, the SIZES of the individual pieces handed to data callbacks may differ), return codes of every API call, consumed counts, memory safety (also when an allocation fails: no crash, no leak beyond what the original leaks, no double free), no new writable global/static state, linear time. Think like a careful maintainer: restructure code, rename locals, split or merge helper functions, change internal data-structure growth policies or initial capacities, replace a loop by an equivalent library call, hoist invariant computations, reorder INDEPENDENT statements, simplify conditions into equivalent ones, add internal fast paths that give identical results. Do NOT change public headers' API, log message texts, hook order, or test files. Be careful: an accidental behaviour change defeats the purpose - re-read your diff and convince yourself of equivalence, including on error paths and for inputs split across calls at arbitrary positions.

DELIVERABLES inside {wt}/seeded/:
  patch.diff   - output of `git -C {wt} diff -- htp/`
  meta.json    - {{"kind": "benign", "area": "<area>", "summary": "<what you changed and why it is behaviour-preserving>", "files": ["htp/..."]}}

VERIFY before finishing: with the change applied `make -C {wt} check` passes all 341 tests. Do NOT use `git stash`. Leave the worktree with the change APPLIED. Keep the final report short: what you changed and your equivalence argument.""")

#!/bin/bash
# usage: tools/coverage.sh [seconds per property, default 20]
# Reach measurement: builds libhtp with clang source coverage (flavour "cov"), runs every check's own workload for a few
# seconds (one worker per property, all properties in parallel), merges the profiles and writes
#   /verif/evidence/coverage.txt      per-file line/branch/function coverage of /repo/htp under the union of all workloads
#   /verif/evidence/uncovered.txt     the functions of /repo/htp no workload entered, and the uncovered line ranges per file
# This is not a check (nothing is decided here); it tells where the workloads do not reach.
cd /verif
SECS=${1:-20}
EXE=$(python3 -c "import checklib; print(checklib.build('cov'))") || exit 2
D=$(mktemp -d /tmp/verifcov.XXXXXX)
for P in C01 C02 C03 C04 C05 C06 C07 C08 C09 C10 C11 C14 C15 C16 C18 C19; do
  ( LLVM_PROFILE_FILE=$D/$P.profraw $EXE run --prop $P --seed ${VERIF_SEED:-1} --start 0 --stride 1 --budget-s $SECS --out $D/out-$P --worker 0 > $D/$P.log 2>&1 ) &
done
wait
llvm-profdata-14 merge -sparse $D/*.profraw -o $D/all.profdata || exit 2
SRC=$(ls /repo/htp/*.c /repo/htp/lzma/*.c)
llvm-cov-14 report $EXE -instr-profile=$D/all.profdata $SRC > evidence/coverage.txt 2>/dev/null
{
  echo "# functions of /repo/htp never entered by any workload (seconds per property: $SECS)"
  llvm-cov-14 report $EXE -instr-profile=$D/all.profdata -show-functions $SRC 2>/dev/null | awk '$1 !~ /^(File|Name|---|TOTAL)/ && NF>=8 && $4=="0.00%" && $3==$2 {print "  " $1}' | sort -u
  echo "# uncovered line ranges per file"
  llvm-cov-14 export $EXE -instr-profile=$D/all.profdata -format=lcov $SRC 2>/dev/null | python3 -c '
import sys
cur=None; unc={}
for l in sys.stdin:
    l=l.strip()
    if l.startswith("SF:"): cur=l[3:]; unc[cur]=[]
    elif l.startswith("DA:"):
        n,c=l[3:].split(",")[:2]
        if c=="0": unc[cur].append(int(n))
for f in sorted(unc):
    ls=unc[f]; rs=[]
    for n in ls:
        if rs and n<=rs[-1][1]+1: rs[-1][1]=n
        else: rs.append([n,n])
    print("%s: %d uncovered lines: %s" % (f.replace("/repo/",""), len(ls), " ".join("%d-%d"%(a,b) if a!=b else str(a) for a,b in rs)))
'
} > evidence/uncovered.txt
rm -rf $D
tail -3 evidence/coverage.txt

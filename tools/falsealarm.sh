#!/bin/bash
# false-alarm control: every quick check under several seeds; prints one line per run and every alarm
SEEDS=${1:-"11 12 13"}
for s in $SEEDS; do for P in C01 C02 C03 C04 C05 C06 C07 C08 C09 C10 C11 C14 C15 C16 C18 C19; do
  VERIF_SEED=$s ./check $P --tier quick 2>&1 | grep -v "^KNOWN-FINDING" | grep "VIOLATION\|oracle=\|simulated runs\|MACHINERY" | cut -c1-260 | sed "s/^/seed=$s /"
done; done

// The PLAN is the replay artefact: configuration + byte streams + ground truth + explicit op list with
// attached faults. Layer 1 (gen.cpp) produces plans from a seed; Layer 2 (exec.cpp) executes a plan
// against the real libhtp. Replaying a plan file runs Layer 2 only.
#pragma once
#include "util.h"

struct Cfg {
    std::map<std::string, long> kv;
    long get(const std::string &k, long def) const { auto it = kv.find(k); return it == kv.end() ? def : it->second; }
    void set(const std::string &k, long v) { kv[k] = v; }
    bool has(const std::string &k) const { return kv.count(k) != 0; }
};

// callback hook ids (order fixed: part of the plan format)
enum HookId {
    HK_REQUEST_START = 0, HK_REQUEST_LINE, HK_REQUEST_URI_NORMALIZE, HK_REQUEST_HEADER_DATA, HK_REQUEST_HEADERS,
    HK_REQUEST_BODY_DATA, HK_REQUEST_FILE_DATA, HK_REQUEST_TRAILER_DATA, HK_REQUEST_TRAILER, HK_REQUEST_COMPLETE,
    HK_RESPONSE_START, HK_RESPONSE_LINE, HK_RESPONSE_HEADER_DATA, HK_RESPONSE_HEADERS, HK_RESPONSE_BODY_DATA,
    HK_RESPONSE_TRAILER_DATA, HK_RESPONSE_TRAILER, HK_RESPONSE_COMPLETE, HK_TRANSACTION_COMPLETE, HK_LOG,
    HK_TX_REQUEST_BODY_DATA, HK_TX_RESPONSE_BODY_DATA,   // per-transaction hooks registered from a callback
    HK_COUNT
};
extern const char *hook_names[HK_COUNT];

// what a scripted callback does on its k-th invocation
enum CbAction { CB_OK = 0, CB_DECLINED, CB_STOP, CB_ERROR, CB_REG_TX_HOOKS, CB_DESTROY_DONE_TX };
struct CbFault { int hook; int nth; int action; };   // nth: 1-based invocation count of that hook in this run (all conns)

struct Op {
    char kind = 'Q';   // O open | Q req data | S res data | q req gap | s res gap | c req_close | C close | D destroy (abort)
                       // | T destroy completed txs + tx_freed | Z zero-length req call | z zero-length res call | R re-open
    int conn = 0;
    long n = 0;        // bytes for Q/S/q/s
    long af = 0;       // fail the af-th allocation made inside this op (0 = none)
};

struct Extent { long a = 0, b = 0; };   // [a,b) in a stream

struct Exchange {           // ground truth for one request/response pair on a connection
    Extent req, res;        // where its bytes are in the two streams
    long req_head_end = 0;  // stream offset just past the blank line of the request head
    long res_head_end = 0;
    std::vector<std::pair<std::string, Bytes>> expect;   // key -> value the parser must report (C02/C04/C06/C07/C11/...)
};

struct ConnPlan {
    Bytes stream[2];                 // 0 = request direction, 1 = response direction
    std::vector<Exchange> xchg;
};

struct Plan {
    std::string prop;                // property the plan was generated for (selects oracles on replay)
    std::string scenario;            // sub-scenario name (informational + selects post-run oracle details)
    uint64_t seed = 0;               // run seed it came from (informational)
    Cfg cfg;
    std::vector<ConnPlan> conns;
    std::vector<Op> ops;
    std::vector<CbFault> cbs;
    long alloc_fail_at = 0;          // run-global k-th allocation fails (C18)
    long alloc_sustained = 0;
    std::map<std::string, Bytes> extra;   // scenario-specific payloads (direct-API multipart/urlencoded inputs, ...)
    // threads (C19)
    long sched_seed = 0, sched_mean = 0, threads = 0;

    std::string serialize() const;
    static bool parse(const std::string &text, Plan &out, std::string &err);
    size_t size_measure() const;     // for "is this plan smaller" decisions in the shrinker
};

bool read_file(const std::string &path, std::string &out);
bool write_file(const std::string &path, const std::string &data);

// Per-property scenarios (workload + fault profile) and post-run oracles.
#pragma once
#include "exec.h"
#include "gen.h"

struct Verdict {
    bool violated = false;
    std::string oracle, detail;
    int executions = 0;          // how many times libhtp was driven to evaluate this plan
    bool nontrivial = false;     // completed >= 1 transaction and contained >= 1 cut or fault
    uint64_t sig = 0;            // behaviour signature of the (variant) run
    uint64_t hash = 0;           // event-log hash of the (variant) run
};

struct Agg;   // run-loop statistics (main.cpp)

// evaluate plan.prop on the plan: runs it (and whatever reference runs the oracle needs)
Verdict evaluate_plan(const Plan &p, Agg *agg);

bool is_known_property(const std::string &prop);
// trigger predicates of known findings, evaluated on the plan before it is run (DESIGN.md section 9); "" = none
std::string plan_trigger(const Plan &p);

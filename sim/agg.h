// Statistics accumulated by a worker over its runs; printed as one JSON object at the end.
#pragma once
#include "exec.h"
#include <set>

struct Agg {
    uint64_t runs = 0, executions = 0, violations = 0, nontrivial = 0;
    std::set<uint64_t> sigs;                 // distinct behaviour signatures among non-trivial runs
    std::map<std::string, uint64_t> c;       // named counters
    std::vector<std::string> sample_plans;   // a few plans written out
    void inc(const std::string &k, uint64_t n = 1) { if (n) c[k] += n; }
    void add_run(const RunResult &r) {
        executions++;
        const Stats &s = r.st;
        inc("calls", s.calls); inc("callbacks", s.cbs); inc("cuts", s.cuts); inc("fault.gap.issued", s.gaps); inc("fault.gap.accepted", s.gaps_accepted);
        inc("fault.close", s.closes); inc("fault.abort", s.aborts); inc("data_other.req", s.data_other[0]); inc("data_other.res", s.data_other[1]);
        inc("tx.created", s.tx_created); inc("tx.completed", s.tx_completed);
        static const char *act[] = {"ok", "declined", "stop", "error", "reg_tx_hook", "destroy_done_tx"};
        for (int i = 1; i < 6; i++) inc(std::string("fault.cb.") + act[i], s.cb_faults_fired[i]);
        for (int d = 0; d < 2; d++) {
            for (int i = 0; i < 10; i++) if (s.rc_count[d][i]) inc(strfmt("rc.%s.%d", d ? "res" : "req", i), s.rc_count[d][i]);
            for (int i = 0; i < 32; i++) {
                if (s.state_at_call[d][i]) inc(std::string("call_in_state.") + state_name(d, i), s.state_at_call[d][i]);
                if (s.state_at_close[d][i]) inc(std::string("close_in_state.") + state_name(d, i), s.state_at_close[d][i]);
                if (s.state_at_abort[d][i]) inc(std::string("abort_in_state.") + state_name(d, i), s.state_at_abort[d][i]);
            }
            inc(d ? "sticky_followups.res" : "sticky_followups.req", s.sticky_followups[d]);
        }
        inc("disposals", s.disposals); inc("tx_freed", s.tx_freed); inc("handover_retries", s.retries);
        inc("fault.api.zero_len", s.zero_len_calls); inc("fault.api.reopen", s.reopen);
        inc("alloc.total", r.total_allocs); inc("fault.alloc.failed", r.alloc_failed);
        inc("ticks", r.ticks); inc("ubsan.benign_null_plus_zero", r.ubsan_benign);
        for (auto &kv : r.probes) inc("probe." + kv.first, kv.second);
        for (auto &kv : r.known_hits) inc("known_hit." + kv.first, kv.second);
        inc("clock.reads", r.clock_reads); inc("fault.clock", r.clock_faults); inc("fault.fs", r.fs_faults); inc("fs.calls", r.fs_calls);
    }
    std::string to_json() const {
        std::string o = "{";
        o += strfmt("\"runs\":%llu,\"executions\":%llu,\"violations\":%llu,\"nontrivial\":%llu,\"distinct_sigs\":%zu,\"counters\":{",
                    (unsigned long long) runs, (unsigned long long) executions, (unsigned long long) violations, (unsigned long long) nontrivial, sigs.size());
        bool first = true;
        for (auto &kv : c) { if (!first) o += ","; first = false; o += "\"" + json_escape(kv.first) + "\":" + strfmt("%llu", (unsigned long long) kv.second); }
        o += "}}";
        return o;
    }
};

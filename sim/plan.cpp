#include "plan.h"
#include <sstream>
#include <fstream>

const char *hook_names[HK_COUNT] = {
    "request_start", "request_line", "request_uri_normalize", "request_header_data", "request_headers",
    "request_body_data", "request_file_data", "request_trailer_data", "request_trailer", "request_complete",
    "response_start", "response_line", "response_header_data", "response_headers", "response_body_data",
    "response_trailer_data", "response_trailer", "response_complete", "transaction_complete", "log",
    "tx_request_body_data", "tx_response_body_data"};

bool read_file(const std::string &path, std::string &out) {
    std::ifstream f(path, std::ios::binary);
    if (!f) return false;
    std::stringstream ss; ss << f.rdbuf(); out = ss.str();
    return true;
}
bool write_file(const std::string &path, const std::string &data) {
    std::ofstream f(path, std::ios::binary | std::ios::trunc);
    if (!f) return false;
    f.write(data.data(), (std::streamsize) data.size());
    return (bool) f;
}

std::string Plan::serialize() const {
    std::string o;
    o += "htpsim-plan 1\n";
    o += "prop " + prop + "\n";
    o += "scenario " + (scenario.empty() ? std::string("-") : scenario) + "\n";
    o += strfmt("seed %llu\n", (unsigned long long) seed);
    for (auto &kv : cfg.kv) o += strfmt("cfg %s %ld\n", kv.first.c_str(), kv.second);
    if (alloc_fail_at) o += strfmt("allocfail %ld %ld\n", alloc_fail_at, alloc_sustained);
    if (threads) o += strfmt("sched %ld %ld %ld\n", threads, sched_seed, sched_mean);
    for (auto &kv : extra) o += "extra " + kv.first + " " + esc_encode(kv.second) + "\n";
    for (size_t c = 0; c < conns.size(); c++) {
        o += strfmt("conn %zu\n", c);
        o += strfmt("stream %zu 0 ", c) + esc_encode(conns[c].stream[0]) + "\n";
        o += strfmt("stream %zu 1 ", c) + esc_encode(conns[c].stream[1]) + "\n";
        for (size_t i = 0; i < conns[c].xchg.size(); i++) {
            const Exchange &x = conns[c].xchg[i];
            o += strfmt("xchg %zu %zu %ld %ld %ld %ld %ld %ld\n", c, i, x.req.a, x.req.b, x.res.a, x.res.b, x.req_head_end, x.res_head_end);
            for (auto &e : x.expect) o += strfmt("expect %zu %zu ", c, i) + e.first + " " + esc_encode(e.second) + "\n";
        }
    }
    for (auto &f : cbs) o += strfmt("cb %s %d %d\n", hook_names[f.hook], f.nth, f.action);
    for (auto &op : ops) {
        o += strfmt("op %c %d %ld", op.kind, op.conn, op.n);
        if (op.af) o += strfmt(" af=%ld", op.af);
        o += "\n";
    }
    o += "end\n";
    return o;
}

bool Plan::parse(const std::string &text, Plan &p, std::string &err) {
    p = Plan();
    std::istringstream in(text);
    std::string line; int ln = 0; bool saw_end = false;
    while (std::getline(in, line)) {
        ln++;
        if (line.empty() || line[0] == '#') continue;
        std::vector<std::string> t = split_ws(line);
        if (t.empty()) continue;
        const std::string &k = t[0];
        auto need = [&](size_t n) { if (t.size() < n) { err = strfmt("line %d: too few fields", ln); return false; } return true; };
        if (k == "htpsim-plan") continue;
        else if (k == "prop") { if (!need(2)) return false; p.prop = t[1]; }
        else if (k == "scenario") { if (!need(2)) return false; p.scenario = t[1] == "-" ? "" : t[1]; }
        else if (k == "seed") { if (!need(2)) return false; p.seed = strtoull(t[1].c_str(), 0, 10); }
        else if (k == "cfg") { if (!need(3)) return false; p.cfg.set(t[1], atol(t[2].c_str())); }
        else if (k == "allocfail") { if (!need(3)) return false; p.alloc_fail_at = atol(t[1].c_str()); p.alloc_sustained = atol(t[2].c_str()); }
        else if (k == "sched") { if (!need(4)) return false; p.threads = atol(t[1].c_str()); p.sched_seed = atol(t[2].c_str()); p.sched_mean = atol(t[3].c_str()); }
        else if (k == "extra") { if (!need(3)) return false; p.extra[t[1]] = esc_decode(t[2]); }
        else if (k == "conn") { if (!need(2)) return false; size_t c = (size_t) atol(t[1].c_str()); if (p.conns.size() <= c) p.conns.resize(c + 1); }
        else if (k == "stream") {
            if (!need(4)) return false;
            size_t c = (size_t) atol(t[1].c_str()); int d = atoi(t[2].c_str());
            if (p.conns.size() <= c) p.conns.resize(c + 1);
            if (d < 0 || d > 1) { err = strfmt("line %d: bad direction", ln); return false; }
            p.conns[c].stream[d] = esc_decode(t[3]);
        } else if (k == "xchg") {
            if (!need(9)) return false;
            size_t c = (size_t) atol(t[1].c_str()), i = (size_t) atol(t[2].c_str());
            if (p.conns.size() <= c) p.conns.resize(c + 1);
            if (p.conns[c].xchg.size() <= i) p.conns[c].xchg.resize(i + 1);
            Exchange &x = p.conns[c].xchg[i];
            x.req.a = atol(t[3].c_str()); x.req.b = atol(t[4].c_str()); x.res.a = atol(t[5].c_str()); x.res.b = atol(t[6].c_str());
            x.req_head_end = atol(t[7].c_str()); x.res_head_end = atol(t[8].c_str());
        } else if (k == "expect") {
            if (!need(5)) return false;
            size_t c = (size_t) atol(t[1].c_str()), i = (size_t) atol(t[2].c_str());
            if (p.conns.size() <= c || p.conns[c].xchg.size() <= i) { err = strfmt("line %d: expect before xchg", ln); return false; }
            p.conns[c].xchg[i].expect.push_back(std::make_pair(t[3], esc_decode(t[4])));
        } else if (k == "cb") {
            if (!need(4)) return false;
            CbFault f; f.hook = -1;
            for (int h = 0; h < HK_COUNT; h++) if (t[1] == hook_names[h]) f.hook = h;
            if (f.hook < 0) { err = strfmt("line %d: unknown hook %s", ln, t[1].c_str()); return false; }
            f.nth = atoi(t[2].c_str()); f.action = atoi(t[3].c_str());
            p.cbs.push_back(f);
        } else if (k == "op") {
            if (!need(4)) return false;
            Op op; op.kind = t[1][0]; op.conn = atoi(t[2].c_str()); op.n = atol(t[3].c_str());
            for (size_t i = 4; i < t.size(); i++) if (t[i].compare(0, 3, "af=") == 0) op.af = atol(t[i].c_str() + 3);
            p.ops.push_back(op);
        } else if (k == "end") { saw_end = true; }
        else { err = strfmt("line %d: unknown record '%s'", ln, k.c_str()); return false; }
    }
    if (!saw_end) { err = "truncated plan (no end record)"; return false; }
    if (p.conns.empty()) p.conns.resize(1);
    return true;
}

size_t Plan::size_measure() const {
    size_t m = ops.size() * 16 + cbs.size() * 8;
    for (auto &c : conns) m += c.stream[0].size() + c.stream[1].size() + c.xchg.size() * 4;
    for (auto &kv : extra) m += kv.second.size();
    m += cfg.kv.size();
    return m;
}

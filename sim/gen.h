// Layer 1: the world. Seeded actors emit HTTP messages from a grammar and keep the ground truth of
// what they sent; the wire cuts, interleaves, loses and closes; the result is a Plan.
#pragma once
#include "plan.h"

struct HeaderSpec {
    std::string name;
    Bytes value;                       // first-line value (no surrounding white space)
    std::vector<Bytes> folds;          // continuation lines: leading LWS + content
    std::string ows1 = " ", ows2 = ""; // after the colon, before CRLF
};

enum Framing { FR_NONE = 0, FR_CL, FR_CHUNKED, FR_CLOSE };

struct MsgSpec {
    bool is_request = true;
    // request line
    std::string method = "GET", target = "/", version = "HTTP/1.1";
    // status line
    int status = 200; std::string reason = "OK";
    std::vector<HeaderSpec> headers, trailers;
    Framing framing = FR_NONE;
    Bytes body;                        // entity body as sent (after content coding)
    Bytes payload;                     // what the body decodes to (== body without content coding)
    std::vector<size_t> chunk_sizes;   // for FR_CHUNKED
    int chunk_fmt = 0;                 // how chunk sizes are written: 0 lower-case hex, 1 upper-case hex, 2 leading zeros (all 1*HEXDIG, RFC 7230 4.1)
    std::vector<std::string> chunk_ext;
    bool head_response = false;        // response to HEAD: headers may announce a body, none follows
    bool body_withheld = false;        // request with Expect: 100-continue whose client waited, got a final 4xx and never sent the body
    std::string eol = "\r\n";
    Bytes lead;                        // white space sent before the request line (tolerated by the library, "IIS allows this"; C16 only)
    Bytes interim;                     // raw bytes of an interim (100) response sent before this response
    std::vector<std::pair<std::string, Bytes>> xexpect;   // derived ground truth (host, cookies, credentials, parameters)
};

struct Serialized {
    Bytes bytes;
    long head_end = 0;                 // offset just past the blank line
    long body_wire_len = 0;            // bytes from first body byte (or first chunk-size line) through the last-chunk line
};

Serialized serialize_msg(const MsgSpec &m);

// reference model of libhtp's header table: names in first-occurrence order, repeated values joined with ", "
std::vector<std::pair<std::string, Bytes>> reference_headers(const MsgSpec &m);

struct GenFeatures {
    bool fold = true, repeat = true, many_headers = true, chunked = true, chunk_ext = true, trailers = true, close_delim = true,
         pipeline = true, absolute_uri = true, cookies = true, auth = true, query = true, urlenc_body = true, multipart_body = false,
         hostile_body = true, head = true, interim100 = true, http10 = true, put = true, content_coding = false, bare_lf = false,
         wild_host = false,   // bracketed host literals with lengths on buffer-size edges (never in scenarios with ground truth)
         expect_withheld = false,   // "Expect: 100-continue", final 4xx answer, body never sent (needs a schedule in which the next request follows that answer)
         wild_path = false;   // request paths built from the decoder's corner cases (escapes, %u, overlong UTF-8, dot segments, backslashes)
    int max_exchanges = 6;
    int max_body = 300;
};

struct Script {   // one connection's ground truth
    std::vector<MsgSpec> req, res;
};

// ---- scenario entry point: build the plan for run seed `seed` of property `prop` (variant index for sweeps)
bool generate_plan(const std::string &prop, uint64_t seed, Plan &out);

// helpers shared with props.cpp
void build_conn_from_script(Rng &rng, const Script &s, ConnPlan &cp, bool with_expect);
enum Strategy { ST_WHOLE = 0, ST_UNIFORM, ST_STORM, ST_BIASED, ST_NET, ST_ONECUT, ST_COUNT };
// cut positions (sorted stream offsets, excluding 0 and size) for one direction
std::vector<size_t> choose_cuts(Rng &rng, const Bytes &stream, const std::vector<Extent> &msgs, int strategy, size_t param);
// merge two chunked directions into an op list; legal = request i entirely offered before any byte of response i
void interleave_ops(Rng &rng, const ConnPlan &cp, int conn, const std::vector<size_t> &cuts0, const std::vector<size_t> &cuts1,
                    int req_bias_pct, bool legal, bool early_ok, std::vector<Op> &ops);
void random_cfg(Rng &rng, Cfg &cfg, bool wellformed);
void load_captures(std::vector<std::pair<std::string, std::vector<std::pair<int, Bytes>>>> &out);
Script random_script(Rng &rng, const GenFeatures &f, int n_exchanges, int id_base);
void mutate_stream(Rng &rng, Bytes &s, int n_mut);
HeaderSpec soup_header(Rng &r, bool response);   // hostile value for a field the library parses further (no ground truth)
// content codings used by the actors only (never by an oracle): zlib deflate with the given window bits
// (31 gzip, -15 raw RFC 1951, 15 zlib RFC 1950) and liblzma's LZMA-alone encoder
Bytes z_encode(const Bytes &in, int window_bits, int level, int gz_header_fields);
Bytes lzma_alone_encode(const Bytes &in, uint32_t dict_size);

// Small utilities shared by the whole simulator: PRNG, hashing, hex, string helpers.
#pragma once
#include <cstdint>
#include <cstdio>
#include <cstdlib>
#include <cstring>
#include <string>
#include <vector>
#include <map>
#include <algorithm>

typedef std::string Bytes;

static inline uint64_t splitmix64(uint64_t &x) {
    uint64_t z = (x += 0x9e3779b97f4a7c15ULL);
    z = (z ^ (z >> 30)) * 0xbf58476d1ce4e5b9ULL;
    z = (z ^ (z >> 27)) * 0x94d049bb133111ebULL;
    return z ^ (z >> 31);
}

static inline uint64_t mix64(uint64_t a, uint64_t b) {
    uint64_t x = a * 0x9e3779b97f4a7c15ULL + b + 0x7f4a7c159e3779b9ULL;
    uint64_t s = x;
    return splitmix64(s);
}

// xoshiro256** : the only source of randomness in the simulator.
struct Rng {
    uint64_t s[4];
    explicit Rng(uint64_t seed = 1) { reseed(seed); }
    void reseed(uint64_t seed) {
        uint64_t x = seed;
        for (int i = 0; i < 4; i++) s[i] = splitmix64(x);
    }
    static inline uint64_t rotl(uint64_t x, int k) { return (x << k) | (x >> (64 - k)); }
    uint64_t next() {
        const uint64_t result = rotl(s[1] * 5, 7) * 9;
        const uint64_t t = s[1] << 17;
        s[2] ^= s[0]; s[3] ^= s[1]; s[1] ^= s[2]; s[0] ^= s[3];
        s[2] ^= t; s[3] = rotl(s[3], 45);
        return result;
    }
    // uniform in [0, n)
    uint64_t below(uint64_t n) { return n ? next() % n : 0; }
    // uniform in [lo, hi]
    int64_t range(int64_t lo, int64_t hi) { return hi <= lo ? lo : lo + (int64_t) below((uint64_t) (hi - lo + 1)); }
    bool chance(unsigned num, unsigned den) { return below(den) < num; }
    bool coin() { return next() & 1; }
    template <class T> const T &pick(const std::vector<T> &v) { return v[below(v.size())]; }
    // geometric-ish length with the given mean (>=1)
    size_t geom(size_t mean) {
        if (mean <= 1) return 1;
        size_t n = 1;
        while (n < mean * 8 && below(mean) != 0) n++;
        return n;
    }
};

struct Fnv {
    uint64_t h = 0xcbf29ce484222325ULL;
    void byte(unsigned char c) { h ^= c; h *= 0x100000001b3ULL; }
    void bytes(const void *p, size_t n) { const unsigned char *c = (const unsigned char *) p; for (size_t i = 0; i < n; i++) byte(c[i]); }
    void str(const std::string &s) { bytes(s.data(), s.size()); byte(0xff); }
    void u64(uint64_t v) { for (int i = 0; i < 8; i++) byte((unsigned char) (v >> (8 * i))); }
};

static inline uint64_t fnv_of(const void *p, size_t n) { Fnv f; f.bytes(p, n); return f.h; }

static inline std::string hex_encode(const Bytes &b) {
    static const char *d = "0123456789abcdef";
    std::string o; o.reserve(b.size() * 2);
    for (unsigned char c : b) { o.push_back(d[c >> 4]); o.push_back(d[c & 15]); }
    return o;
}
static inline int hexval(char c) {
    if (c >= '0' && c <= '9') return c - '0';
    if (c >= 'a' && c <= 'f') return c - 'a' + 10;
    if (c >= 'A' && c <= 'F') return c - 'A' + 10;
    return -1;
}
static inline Bytes hex_decode(const std::string &h) {
    Bytes o; o.reserve(h.size() / 2);
    for (size_t i = 0; i + 1 < h.size(); i += 2) o.push_back((char) ((hexval(h[i]) << 4) | hexval(h[i + 1])));
    return o;
}

// Printable rendering used in plan files: printable ASCII kept, rest as \xNN; reversible.
static inline std::string esc_encode(const Bytes &b) {
    static const char *d = "0123456789abcdef";
    std::string o;
    for (unsigned char c : b) {
        if (c == '\\') o += "\\\\";
        else if (c >= 0x21 && c < 0x7f) o.push_back((char) c);
        else { o += "\\x"; o.push_back(d[c >> 4]); o.push_back(d[c & 15]); }
    }
    if (o.empty()) o = "\\e";
    return o;
}
static inline Bytes esc_decode(const std::string &s) {
    Bytes o;
    if (s == "\\e") return o;
    for (size_t i = 0; i < s.size(); i++) {
        if (s[i] == '\\' && i + 1 < s.size()) {
            if (s[i + 1] == '\\') { o.push_back('\\'); i++; }
            else if (s[i + 1] == 'x' && i + 3 < s.size()) { o.push_back((char) ((hexval(s[i + 2]) << 4) | hexval(s[i + 3]))); i += 3; }
            else if (s[i + 1] == 'e') { i++; }
            else o.push_back(s[i]);
        } else o.push_back(s[i]);
    }
    return o;
}

static inline std::vector<std::string> split_ws(const std::string &line) {
    std::vector<std::string> out; size_t i = 0;
    while (i < line.size()) {
        while (i < line.size() && (line[i] == ' ' || line[i] == '\t')) i++;
        size_t j = i;
        while (j < line.size() && line[j] != ' ' && line[j] != '\t') j++;
        if (j > i) out.push_back(line.substr(i, j - i));
        i = j;
    }
    return out;
}

static inline std::string json_escape(const std::string &s) {
    std::string o;
    for (unsigned char c : s) {
        if (c == '"') o += "\\\""; else if (c == '\\') o += "\\\\";
        else if (c < 0x20 || c >= 0x7f) { char b[8]; snprintf(b, sizeof b, "\\u%04x", c); o += b; }
        else o.push_back((char) c);
    }
    return o;
}

static inline std::string strfmt(const char *fmt, ...) __attribute__((format(printf, 1, 2)));
#include <cstdarg>
static inline std::string strfmt(const char *fmt, ...) {
    char buf[2048]; va_list ap; va_start(ap, fmt); vsnprintf(buf, sizeof buf, fmt, ap); va_end(ap); return buf;
}

static inline std::string lower(const std::string &s) { std::string o = s; for (auto &c : o) if (c >= 'A' && c <= 'Z') c = (char) (c + 32); return o; }

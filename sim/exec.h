// Layer 2: executes a plan against the real libhtp through the public API, playing the IDS stub
// (QUICK_START 2.2 hand-over protocol), with scripted callbacks and the always-on monitors.
#pragma once
#include "plan.h"
#include "seams.h"
#include <set>

typedef std::vector<std::pair<std::string, Bytes>> Dump;

struct Violation { std::string prop, oracle, detail; };

struct TxRec {
    int ordinal = 0, conn = 0;
    void *tx_ptr = nullptr;          // only valid while alive; never logged
    bool alive = true;
    // lifecycle monitor (C05)
    int rank[2] = {0, 0};
    int last_progress[2] = {0, 0};
    int n_complete[3] = {0, 0, 0};   // request_complete, response_complete, transaction_complete
    int seen100_seen = 0;            // interim-100 restarts already accounted for
    bool await_line = false;         // after a restart, until the next RESPONSE_LINE
    // body/data collectors
    Bytes body[2];                   // bytes handed to the cfg-level body callback
    int64_t body_seen[2] = {0, 0};   // sum of lengths seen by it (gaps included)
    int64_t body_gap[2] = {0, 0};    // bytes that were gaps (data NULL, len > 0)
    int eob[2] = {0, 0};             // end-of-body markers seen
    int eob_before_complete[2] = {0, 0};
    Bytes hdr_raw[2], trl_raw[2];    // raw header/trailer data
    Bytes file_data;                 // FILE_DATA bytes (PUT / multipart)
    int64_t txhook_body[2] = {0, 0}; // bytes seen by per-tx hooks
    bool cb_declined_body[2] = {false, false};
    bool cb_nonok[2] = {false, false}; // some callback of that side returned non-OK (relaxes accounting)
    std::string cbseq;               // hook letters, consecutive data callbacks of one kind collapsed
    std::string cbseq_full;
    Dump dump; bool have_dump = false; bool dump_at_complete = false;
    int64_t offered_at_start[2] = {0, 0}; // bytes offered to each direction when the tx first appeared
    int64_t last_msglen[2] = {0, 0};
    bool decomp_restart_lost_input = false;   // a decompressor restart happened after input of earlier calls had been consumed
    long decomp_restart_prior = 0;            // ... and how many body bytes of this message earlier calls had handed over (the library keeps back the first 13 for exactly this case)
    long msglen_at_call_end[2] = {0, 0};      // message length (body bytes seen on the wire) when the last data call for that side returned
    int max_layers = 0;              // longest decompressor chain seen while body data was delivered
    bool cb_nonok_any = false;       // some scripted callback for this transaction returned STOP / ERROR (any hook)
    std::string lenient_site[2];     // lenient-parsing call site (guarded probe) that delivered data for this side, if any
};

struct CallRec {
    int conn; char kind; long len; int rc; long consumed;
    int in_state, out_state; int in_status_before, out_status_before;
    uint64_t ticks; uint64_t allocs;
    int cbs;   // non-log callbacks run during the call
    long buffered_before;  // bytes libhtp held for that direction before the call (C08 work measure)
    unsigned conn_flags_after; int ntx_after; int next_tx_after;
    long msg_bytes_before; // bytes of the current message already offered in that direction (amortisation window of C08's per-call bound)
    int cbfault_hook, cbfault_ret;   // first scripted callback of this call that returned HTP_STOP / HTP_ERROR (hook id + 1; 0 = none), and what it returned
};

struct ConnRes {
    std::vector<int> txs;            // ordinals into RunResult::txs in creation order
    int64_t offered[2] = {0, 0};     // bytes offered (accepted by a live stream)
    int64_t offered_before_call[2] = {0, 0};
    int sticky[2] = {0, 0};          // HTP_STREAM_ERROR / STOP once seen
    bool tunnel_seen[2] = {false, false};
    int tx_count_at_tunnel = -1;
    uint64_t conn_flags = 0;
    int final_in_status = 0, final_out_status = 0;
    int pre_close_status[2] = {-1, -1};   // stream states just before the first close call
    long final_tx_list_size = 0;
    bool destroyed = false;
    int log_count = 0;
    // for C04 / C16: stream offsets (in bytes actually consumed by libhtp) at interesting moments
    std::vector<long> req_consumed_at_call, res_consumed_at_call;
    long req_consumed_total = 0, res_consumed_total = 0;   // bytes libhtp reported consumed
    long res_first_byte_offered_for_tx = 0;
};

struct Stats {
    uint64_t calls = 0, cbs = 0, cuts = 0, gaps = 0, gaps_accepted = 0, closes = 0, aborts = 0, data_other[2] = {0, 0};
    uint64_t tx_created = 0, tx_completed = 0, cb_faults_fired[6] = {0, 0, 0, 0, 0, 0};
    uint64_t rc_count[2][10] = {{0}, {0}};
    uint64_t state_at_call[2][32] = {{0}, {0}};
    uint64_t state_at_close[2][32] = {{0}, {0}};
    uint64_t state_at_abort[2][32] = {{0}, {0}};
    uint64_t sticky_followups[2] = {0, 0};
    uint64_t disposals = 0, tx_freed = 0, retries = 0;
    uint64_t zero_len_calls = 0, reopen = 0;
};

// the best-fit map the C15 plans install (public setter) when %u decoding is on, so that the reference rule knows it: triplets
// (high byte, low byte, replacement), terminated by 0,0,0; code points not listed give SIM_BESTFIT_DEFAULT
static const unsigned char SIM_BESTFIT[] = {0x01, 0x41, 'X', 0xff, 0x21, '!', 0xab, 0x10, 'Z', 0x1f, 0xff, 'Y', 0x12, 0x34, 0x00, 0, 0, 0};
static const int SIM_BESTFIT_DEFAULT = '#';

struct RunResult {
    std::deque<TxRec> txs;           // deque: references stay valid while records are appended
    std::vector<ConnRes> conns;
    std::vector<CallRec> calls;
    std::vector<Violation> viol;
    Stats st;
    uint64_t hash = 0;               // event-log hash (no pointers)
    uint64_t behaviour_sig = 0;      // hash of (dir, state, rc, callbacks fired) sequence
    uint64_t total_allocs = 0, alloc_failed = 0; uintptr_t fail_site = 0;
    std::vector<uint64_t> realloc_ks;   // which of the allocations were growth reallocs (C18 enumerates these in full)
    int64_t peak_bytes = 0;
    uint64_t ticks = 0;
    std::vector<int64_t> live_after_tx;   // live heap bytes sampled at each TRANSACTION_COMPLETE (C10 steady state)
    std::vector<uint64_t> allocs_at_tx;
    uint64_t ubsan_benign = 0;
    uint64_t clock_reads = 0, clock_faults = 0, fs_faults = 0, fs_calls = 0;
    std::map<std::string, Bytes> files; // simulated files left closed & not unlinked (name -> content)
    std::map<std::string, Bytes> out;   // direct-API scenario outputs
    std::map<std::string, uint64_t> probes;      // guarded trace probes fired (site -> count)
    std::map<std::string, uint64_t> known_hits;  // violations attributed to a listed known finding (site -> count)
    uint64_t sched_switches = 0, sched_hash = 0;   // baton scheduler: hand-overs and hash of (task, tick) switch points
    uint64_t access_checks = 0;                    // loads/stores examined by the ownership oracle
    bool cfg_changed = false;        // shared configuration bytes changed during parsing (C19)
};

// which in_state/out_state function is current -> small stable ints and names
int state_id_in(void *connp);
int state_id_out(void *connp);
const char *state_name(int dir, int id);
extern const int N_STATES_IN, N_STATES_OUT;

void execute_plan(const Plan &p, RunResult &r);
// call sites listed in known_findings.json (status known): a violation attributed to one of them is counted, not raised
extern std::set<std::string> g_known_sites;

// canonical dump comparison helpers
std::string dump_first_diff(const Dump &a, const Dump &b, bool mask_multipacket);
const Bytes *dump_get(const Dump &d, const std::string &key);

// ---- direct use of the public streaming sub-parsers (C14, C15): exact control over chunk boundaries
// chunks: sizes in order (the remainder, if any, is delivered as a last chunk). Returns false when set-up failed.
bool run_urlenp_direct(const Cfg &cfg, const Bytes &input, const std::vector<size_t> &chunks, Dump &out, std::vector<Violation> &viol);
bool run_mpart_direct(const Cfg &cfg, const Bytes &content_type, const Bytes &body, const std::vector<size_t> &chunks, Dump &out, std::vector<Violation> &viol);

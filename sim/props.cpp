#include "props.h"
#include "agg.h"

// ================================================================================================
// Scenario: CHAOS (all-input properties C01, C05, C09, C10 and the accounting half of C06)
// ================================================================================================

static std::vector<std::pair<std::string, std::vector<std::pair<int, Bytes>>>> *g_caps;
static const std::vector<std::pair<std::string, std::vector<std::pair<int, Bytes>>>> &captures() {
    if (!g_caps) { g_caps = new std::vector<std::pair<std::string, std::vector<std::pair<int, Bytes>>>>(); load_captures(*g_caps); }
    return *g_caps;
}

Script connect_script(Rng &r, int id_base);   // below (C16)

static void conn_from_capture(Rng &rng, ConnPlan &cp, std::vector<Op> &ops, int conn, bool keep_order) {
    const auto &caps = captures();
    cp = ConnPlan();
    if (caps.empty()) { cp.stream[0] = "GET / HTTP/1.0\r\n\r\n"; cp.stream[1] = "HTTP/1.0 200 OK\r\n\r\n"; }
    else {
        const auto &cap = caps[rng.below(caps.size())];
        for (auto &ch : cap.second) {
            cp.stream[ch.first] += ch.second;
            if (keep_order) { Op op; op.kind = ch.first == 0 ? 'Q' : 'S'; op.conn = conn; op.n = (long) ch.second.size(); if (op.n) ops.push_back(op); }
        }
    }
}

static void chaos_plan(Rng &rng, Plan &p, const std::string &prop) {
    p.prop = prop; p.scenario = "chaos";
    random_cfg(rng, p.cfg, false);
    if (prop == "C10" && rng.coin()) { static const long H[] = {64, 100, 256, 512, 2000}; long h = H[rng.below(5)]; p.cfg.set("field_hard", h); p.cfg.set("field_soft", h / 2); }
    if (prop == "C10" && rng.coin()) { static const long M[] = {1, 2, 8}; p.cfg.set("max_tx", M[rng.below(3)]); }
    int nconn = rng.chance(1, 6) ? (int) rng.range(2, 3) : 1;
    p.conns.resize((size_t) nconn);
    GenFeatures f; f.bare_lf = true;
    std::vector<std::vector<Op>> per_conn((size_t) nconn);
    for (int c = 0; c < nconn; c++) {
        ConnPlan &cp = p.conns[(size_t) c];
        int src = (int) rng.below(10);
        bool ordered = false;
        if (src < 4) {
            int n = (int) rng.range(1, 6);
            Script s = (rng.chance(1, 6)) ? connect_script(rng, 100 * c) : random_script(rng, f, n, 100 * c);
            build_conn_from_script(rng, s, cp, false);
        } else {
            ordered = rng.coin();
            conn_from_capture(rng, cp, per_conn[(size_t) c], c, ordered);
        }
        for (auto &x : cp.xchg) x.expect.clear();
        if (rng.chance(2, 5)) { int d = (int) rng.below(2); mutate_stream(rng, cp.stream[d], (int) rng.range(1, 4)); ordered = false; per_conn[(size_t) c].clear(); cp.xchg.clear(); }
        if (rng.chance(1, 8)) { // bare-LF line ends: legal for a tolerant recipient, not part of the well-formed domain
            for (int d = 0; d < 2; d++) { Bytes o; for (size_t i = 0; i < cp.stream[d].size(); i++) { if (cp.stream[d][i] == '\r' && i + 1 < cp.stream[d].size() && cp.stream[d][i + 1] == '\n' && rng.coin()) continue; o.push_back(cp.stream[d][i]); } cp.stream[d] = o; }
            ordered = false; per_conn[(size_t) c].clear(); cp.xchg.clear();
        }
        if (!ordered || rng.coin()) {
            per_conn[(size_t) c].clear();
            std::vector<Extent> m0, m1; for (auto &x : cp.xchg) { m0.push_back(x.req); m1.push_back(x.res); }
            static const size_t MEANS[] = {1, 2, 3, 5, 8, 16, 64, 512};
            int s0 = (int) rng.below(ST_ONECUT), s1 = (int) rng.below(ST_ONECUT);
            auto c0 = choose_cuts(rng, cp.stream[0], m0, s0, MEANS[rng.below(8)]);
            auto c1 = choose_cuts(rng, cp.stream[1], m1, s1, MEANS[rng.below(8)]);
            bool legal = !cp.xchg.empty() && rng.chance(7, 10);
            static const int BIAS[] = {20, 50, 80, 100};
            if (cp.xchg.empty()) {
                // no ground truth about message boundaries: requests-first most of the time, otherwise arbitrary order (F-REORDER)
                interleave_ops(rng, cp, c, c0, c1, rng.chance(6, 10) ? 100 : BIAS[rng.below(3)], false, false, per_conn[(size_t) c]);
            } else interleave_ops(rng, cp, c, c0, c1, BIAS[rng.below(4)], legal, rng.chance(1, 5), per_conn[(size_t) c]);
        }
    }
    // merge the connections' op lists (call-level interleaving of connections sharing one cfg)
    {
        std::vector<size_t> idx((size_t) nconn, 0);
        for (;;) {
            std::vector<int> live; for (int c = 0; c < nconn; c++) if (idx[(size_t) c] < per_conn[(size_t) c].size()) live.push_back(c);
            if (live.empty()) break;
            int c = live[rng.below(live.size())];
            p.ops.push_back(per_conn[(size_t) c][idx[(size_t) c]++]);
        }
    }
    // ---- faults, placed inside the traffic
    size_t nops = p.ops.size();
    if (nops && rng.chance(1, 5)) {   // capture loss
        int k = (int) rng.range(1, 2);
        for (int i = 0; i < k; i++) { Op &op = p.ops[rng.below(nops)]; if (op.kind == 'Q') op.kind = 'q'; else if (op.kind == 'S') op.kind = 's'; }
    }
    if (rng.chance(1, 4)) {   // end of stream at an arbitrary instant; traffic after it stays in the plan (data after close)
        Op op; op.kind = rng.chance(1, 3) ? 'c' : 'C'; op.conn = (int) rng.below((uint64_t) nconn);
        size_t at = (size_t) rng.below(nops + 1);
        p.ops.insert(p.ops.begin() + (long) at, op);
        if (rng.chance(2, 3)) { size_t keep = at + 1 + (size_t) rng.below(3); if (keep < p.ops.size()) p.ops.resize(keep); }
    }
    if (rng.chance(1, 8)) { Op op; op.kind = 'D'; op.conn = (int) rng.below((uint64_t) nconn); p.ops.insert(p.ops.begin() + (long) rng.below(p.ops.size() + 1), op); }
    if (rng.chance(1, 10)) { Op op; op.kind = rng.coin() ? 'Z' : 'z'; op.conn = (int) rng.below((uint64_t) nconn); p.ops.insert(p.ops.begin() + (long) rng.below(p.ops.size() + 1), op); }
    if (rng.chance(1, 10)) { Op op; op.kind = 'T'; op.n = (long) rng.below(2); op.conn = (int) rng.below((uint64_t) nconn); p.ops.insert(p.ops.begin() + (long) rng.below(p.ops.size() + 1), op); }
    if (rng.chance(1, 25)) { p.cfg.set("explicit_open", 1); if (rng.coin()) { Op op; op.kind = 'O'; op.conn = 0; p.ops.insert(p.ops.begin(), op); } }
    else if (rng.chance(1, 25)) { Op op; op.kind = 'R'; op.conn = 0; p.ops.insert(p.ops.begin() + (long) rng.below(p.ops.size() + 1), op); }
    if (rng.chance(1, 12)) p.cfg.set("autoclose", 0);   // teardown without close
    if (rng.chance(1, 3)) {   // callback behaviours
        int k = (int) rng.range(1, 2);
        for (int i = 0; i < k; i++) {
            CbFault cf; cf.hook = (int) rng.below(HK_LOG + 1); cf.nth = (int) rng.range(1, 6);
            static const int ACT[] = {CB_DECLINED, CB_STOP, CB_ERROR, CB_ERROR, CB_STOP, CB_REG_TX_HOOKS, CB_DESTROY_DONE_TX};
            cf.action = ACT[rng.below(7)];
            p.cbs.push_back(cf);
        }
    }
    if (rng.chance(1, 6)) { p.cfg.set("clock_mode", (long) rng.range(1, 4)); p.cfg.set("clock_every", (long) rng.range(1, 5)); p.cfg.set("clock_jump", (long) rng.range(1000, 5000000)); }
    if (p.cfg.get("extract_files", 0) && rng.chance(1, 3)) {
        switch (rng.below(3)) { case 0: p.cfg.set("fs_mkstemp_at", 1); break; case 1: p.cfg.set("fs_write_at", (long) rng.range(1, 3)); p.cfg.set("fs_write_mode", (long) rng.below(3)); break; default: p.cfg.set("fs_close_at", 1); }
    }
}

// ================================================================================================
// Scenario: C03 segmentation invariance (differential: same history, two chunkings)
// ================================================================================================

static void wellformed_cfg(Rng &rng, Cfg &cfg) {
    random_cfg(rng, cfg, true);
    cfg.set("cookies", 1); cfg.set("auth", 1); cfg.set("urlenc", 1); cfg.set("mpart", 1);
    cfg.set("wellformed", 1);
}

static void skeleton_ops(Rng &rng, const ConnPlan &cp, int skeleton, const std::vector<size_t> &c0, const std::vector<size_t> &c1, std::vector<Op> &ops) {
    // skeleton 0: request i, response i, ...   skeleton 1: all requests, then all responses (chunks may span messages)
    (void) rng;
    auto emit = [&](int d, size_t a, size_t b, const std::vector<size_t> &cuts) {
        size_t p = a;
        for (size_t c : cuts) { if (c <= a || c >= b) continue; Op op; op.kind = d ? 'S' : 'Q'; op.n = (long) (c - p); ops.push_back(op); p = c; }
        if (b > p) { Op op; op.kind = d ? 'S' : 'Q'; op.n = (long) (b - p); ops.push_back(op); }
    };
    if (skeleton == 1) { emit(0, 0, cp.stream[0].size(), c0); emit(1, 0, cp.stream[1].size(), c1); return; }
    for (auto &x : cp.xchg) { emit(0, (size_t) x.req.a, (size_t) x.req.b, c0); emit(1, (size_t) x.res.a, (size_t) x.res.b, c1); }
}

static void c03_plan(Rng &rng, Plan &p, uint64_t variant) {
    p.prop = "C03"; p.scenario = "diff";
    wellformed_cfg(rng, p.cfg);
    GenFeatures f;
    int n = (int) rng.range(1, 4);
    if (rng.chance(1, 3)) { f.max_body = 40; f.many_headers = false; }   // short histories: the single-cut sweep visits every offset
    Script s = random_script(rng, f, n, 0);
    p.conns.resize(1);
    build_conn_from_script(rng, s, p.conns[0], false);
    ConnPlan &cp = p.conns[0];
    std::vector<Extent> m0, m1; for (auto &x : cp.xchg) { m0.push_back(x.req); m1.push_back(x.res); }
    int skeleton = (int) rng.below(2);
    p.cfg.set("skeleton", skeleton);
    int strat = (int) rng.below(5);
    std::vector<size_t> c0, c1;
    static const size_t MEANS[] = {1, 2, 3, 5, 8, 16, 64};
    switch (strat) {
        case 0: {   // sweep: one cut, position derived from the variant counter so that consecutive runs walk the stream
            size_t total = cp.stream[0].size() + cp.stream[1].size();
            size_t pos = total > 2 ? 1 + (size_t) ((variant * 2654435761ULL + rng.below(total)) % (total - 1)) : 1;
            if (pos < cp.stream[0].size()) c0.push_back(pos); else { size_t q = pos - cp.stream[0].size(); if (q > 0) c1.push_back(q); }
            break;
        }
        case 1: c0 = choose_cuts(rng, cp.stream[0], m0, ST_UNIFORM, MEANS[rng.below(7)]); c1 = choose_cuts(rng, cp.stream[1], m1, ST_UNIFORM, MEANS[rng.below(7)]); break;
        case 2: c0 = choose_cuts(rng, cp.stream[0], m0, ST_STORM, 64); c1 = choose_cuts(rng, cp.stream[1], m1, ST_STORM, 64); break;
        case 3: c0 = choose_cuts(rng, cp.stream[0], m0, ST_BIASED, 6); c1 = choose_cuts(rng, cp.stream[1], m1, ST_BIASED, 6); break;
        default: c0 = choose_cuts(rng, cp.stream[0], m0, ST_UNIFORM, 1); c1 = choose_cuts(rng, cp.stream[1], m1, ST_UNIFORM, 1); break;  // one byte per call
    }
    skeleton_ops(rng, cp, skeleton, c0, c1, p.ops);
}

// the reference schedule of a plan: same direction order, maximal chunks (adjacent same-direction data ops merged)
static Plan reference_schedule(const Plan &p) {
    Plan r = p;
    r.ops.clear();
    for (auto &op : p.ops) {
        if (!r.ops.empty() && (op.kind == 'Q' || op.kind == 'S') && r.ops.back().kind == op.kind && r.ops.back().conn == op.conn && !op.af && !r.ops.back().af)
            r.ops.back().n += op.n;
        else r.ops.push_back(op);
    }
    return r;
}

static std::string collapse_data(const std::string &seq) {
    return seq;   // TxRec::cbseq is already collapsed
}

static bool compare_runs_c03(const RunResult &a, const RunResult &b, std::string &oracle, std::string &detail) {
    if (a.txs.size() != b.txs.size()) { oracle = "C03.tx_count"; detail = strfmt("reference=%zu variant=%zu", a.txs.size(), b.txs.size()); return false; }
    for (size_t i = 0; i < a.txs.size(); i++) {
        const TxRec &x = a.txs[i], &y = b.txs[i];
        std::string d = dump_first_diff(x.dump, y.dump, true);
        if (!d.empty()) {
            const Bytes *va = dump_get(x.dump, d), *vb = dump_get(y.dump, d);
            oracle = "C03." + d;
            // indexes inside the oracle id would split one cause into many classes: normalise digits
            for (auto &ch : oracle) if (ch >= '0' && ch <= '9') ch = 'N';
            oracle = "C03." + d; for (size_t k = 4; k < oracle.size(); k++) if (isdigit((unsigned char) oracle[k])) oracle[k] = 'N';
            detail = strfmt("tx#%zu %s: reference='%s' variant='%s'", i, d.c_str(), va ? esc_encode(va->substr(0, 80)).c_str() : "-", vb ? esc_encode(vb->substr(0, 80)).c_str() : "-");
            return false;
        }
        for (int s = 0; s < 2; s++) {
            if (x.body[s] != y.body[s]) { oracle = s ? "C03.res_body" : "C03.req_body"; detail = strfmt("tx#%zu body bytes differ: reference %zu bytes, variant %zu bytes", i, x.body[s].size(), y.body[s].size()); return false; }
            if (x.hdr_raw[s] != y.hdr_raw[s]) { oracle = s ? "C03.res_header_data" : "C03.req_header_data"; detail = strfmt("tx#%zu raw header data differ (%zu vs %zu bytes)", i, x.hdr_raw[s].size(), y.hdr_raw[s].size()); return false; }
            if (x.trl_raw[s] != y.trl_raw[s]) { oracle = s ? "C03.res_trailer_data" : "C03.req_trailer_data"; detail = strfmt("tx#%zu raw trailer data differ", i); return false; }
        }
        if (x.file_data != y.file_data) { oracle = "C03.file_data"; detail = strfmt("tx#%zu", i); return false; }
        if (collapse_data(x.cbseq) != collapse_data(y.cbseq)) { oracle = "C03.cb_order"; detail = strfmt("tx#%zu reference=%s variant=%s", i, x.cbseq.c_str(), y.cbseq.c_str()); return false; }
    }
    return true;
}

// ================================================================================================
// C16 material (CONNECT scripts are also mixed into the chaos traffic)
// ================================================================================================

Script connect_script(Rng &r, int id_base) {
    GenFeatures f; f.interim100 = false;
    Script s;
    int pre = (int) r.range(0, 2);
    if (pre) s = random_script(r, f, pre, id_base);
    for (auto &m : s.res) if (m.framing == FR_CLOSE) { m.framing = FR_CL; HeaderSpec cl; cl.name = "Content-Length"; cl.value = strfmt("%zu", m.body.size()); m.headers.push_back(cl); }
    MsgSpec q; q.method = "CONNECT"; q.target = "tunnel.example:443"; q.version = "HTTP/1.1";
    { HeaderSpec h; h.name = "Host"; h.value = "tunnel.example:443"; q.headers.push_back(h); }
    MsgSpec p; p.is_request = false;
    static const int ST[] = {200, 200, 204, 407, 403, 502, 200};
    p.status = ST[r.below(7)]; p.reason = p.status < 300 ? "Connection established" : "Denied";
    if (p.status >= 300) { p.framing = FR_CL; p.body = p.payload = "denied"; HeaderSpec cl; cl.name = "Content-Length"; cl.value = "6"; p.headers.push_back(cl); }
    s.req.push_back(q); s.res.push_back(p);
    int post = (int) r.range(0, 2);
    if (post) { Script t = random_script(r, f, post, id_base + 10); for (auto &m : t.req) s.req.push_back(m); for (auto &m : t.res) s.res.push_back(m); }
    return s;
}

// ================================================================================================
// dispatch
// ================================================================================================

bool is_known_property(const std::string &prop) {
    static const char *P[] = {"C01", "C03", "C05", "C09", "C10"};
    for (auto q : P) if (prop == q) return true;
    return false;
}

bool generate_plan(const std::string &prop, uint64_t seed, Plan &out) {
    out = Plan();
    out.seed = seed;
    Rng rng(seed);
    if (prop == "C01" || prop == "C05" || prop == "C09" || prop == "C10") chaos_plan(rng, out, prop);
    else if (prop == "C03") c03_plan(rng, out, seed);
    else return false;
    return true;
}

static void first_violation_of(const RunResult &r, const std::string &prop, Verdict &v) {
    for (auto &x : r.viol) {
        bool mine = x.prop == prop;
        if (mine) { v.violated = true; v.oracle = x.oracle; v.detail = x.detail; return; }
    }
}

bool g_debug_dump = false;
static void debug_dump(const char *label, const RunResult &r) {
    if (!g_debug_dump) return;
    printf("---- %s: %zu tx, %zu calls\n", label, r.txs.size(), r.calls.size());
    for (auto &c : r.calls) printf("  call %c len=%ld rc=%d consumed=%ld state=%s/%s cbs=%d\n", c.kind, c.len, c.rc, c.consumed, state_name(0, c.in_state), state_name(1, c.out_state), c.cbs);
    for (auto &t : r.txs) {
        printf("  tx#%d conn=%d cbseq=%s body=%zu/%zu\n", t.ordinal, t.conn, t.cbseq_full.c_str(), t.body[0].size(), t.body[1].size());
        for (auto &kv : t.dump) printf("    %s = %s\n", kv.first.c_str(), esc_encode(kv.second.substr(0, 120)).c_str());
        printf("    @body.req = %s\n    @body.res = %s\n", esc_encode(t.body[0].substr(0, 200)).c_str(), esc_encode(t.body[1].substr(0, 200)).c_str());
    }
    for (auto &x : r.viol) printf("  viol %s %s %s\n", x.prop.c_str(), x.oracle.c_str(), x.detail.c_str());
}

static void note_run(const RunResult &r, const Plan &p, Verdict &v, Agg *agg) {
    debug_dump("run", r);
    v.executions++;
    v.sig = r.behaviour_sig; v.hash = r.hash;
    bool has_cut_or_fault = r.st.cuts > 0 || r.st.gaps > 0 || !p.cbs.empty() || p.alloc_fail_at || r.st.closes > 1 || r.st.aborts > 0;
    v.nontrivial = r.st.tx_completed >= 1 && has_cut_or_fault;
    if (agg) agg->add_run(r);
}

Verdict evaluate_plan(const Plan &p, Agg *agg) {
    Verdict v;
    const std::string &prop = p.prop;
    if (prop == "C01" || prop == "C05" || prop == "C09" || prop == "C10") {
        RunResult r; execute_plan(p, r); note_run(r, p, v, agg);
        first_violation_of(r, prop, v);
        return v;
    }
    if (prop == "C03") {
        Plan ref = reference_schedule(p);
        RunResult a, b;
        execute_plan(ref, a); if (agg) agg->add_run(a); v.executions++; debug_dump("reference", a);
        execute_plan(p, b); note_run(b, p, v, agg);
        // a memory-safety report in either run makes the comparison meaningless: report it here with the sanitizer's id
        first_violation_of(a, "C01", v); if (!v.violated) first_violation_of(b, "C01", v);
        if (v.violated) { v.oracle = "C03.via." + v.oracle; return v; }
        std::string o, d;
        if (!compare_runs_c03(a, b, o, d)) { v.violated = true; v.oracle = o; v.detail = d; }
        return v;
    }
    v.violated = true; v.oracle = "machinery.unknown_property"; v.detail = prop;
    return v;
}

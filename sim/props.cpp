#include "props.h"
#include "agg.h"
#include <array>

static void note_run(const RunResult &r, const Plan &p, Verdict &v, Agg *agg);

// ================================================================================================
// Scenario: CHAOS (all-input properties C01, C05, C09, C10 and the accounting half of C06)
// ================================================================================================

static std::vector<std::pair<std::string, std::vector<std::pair<int, Bytes>>>> *g_caps;
static const std::vector<std::pair<std::string, std::vector<std::pair<int, Bytes>>>> &captures() {
    if (!g_caps) { g_caps = new std::vector<std::pair<std::string, std::vector<std::pair<int, Bytes>>>>(); load_captures(*g_caps); }
    return *g_caps;
}

Script connect_script(Rng &r, int id_base);   // below (C16)
static Script connect_conn(Rng &rng, ConnPlan &cp, int id_base);   // CONNECT / upgrade script built into a connection, tunnel payload included

static void conn_from_capture(Rng &rng, ConnPlan &cp, std::vector<Op> &ops, int conn, bool keep_order) {
    const auto &caps = captures();
    cp = ConnPlan();
    if (caps.empty()) { cp.stream[0] = "GET / HTTP/1.0\r\n\r\n"; cp.stream[1] = "HTTP/1.0 200 OK\r\n\r\n"; }
    else {
        const auto &cap = caps[rng.below(caps.size())];
        for (auto &ch : cap.second) {
            cp.stream[ch.first] += ch.second;
            if (keep_order) { Op op; op.kind = ch.first == 0 ? 'Q' : 'S'; op.conn = conn; op.n = (long) ch.second.size(); if (op.n) ops.push_back(op); }
        }
    }
}

static void make_multipart_request(Rng &rng, MsgSpec &q, bool hostile = false);   // defined with the C14 material

static void chaos_plan(Rng &rng, Plan &p, const std::string &prop) {
    p.prop = prop; p.scenario = "chaos";
    random_cfg(rng, p.cfg, false);
    if (prop == "C10" && rng.coin()) { static const long H[] = {64, 100, 256, 512, 2000}; long h = H[rng.below(5)]; p.cfg.set("field_hard", h); p.cfg.set("field_soft", h / 2); }
    if (prop == "C10" && rng.coin()) { static const long M[] = {1, 2, 8}; p.cfg.set("max_tx", M[rng.below(3)]); }
    if (prop == "C10" && rng.chance(1, 3)) { static const long HL[] = {1, 4, 16, 64}; p.cfg.set("hdr_limit", HL[rng.below(4)]); }
    int nconn = rng.chance(1, 6) ? (int) rng.range(2, 3) : 1;
    p.conns.resize((size_t) nconn);
    GenFeatures f; f.bare_lf = true; f.wild_path = true; f.wild_host = true; f.content_coding = true;
    std::vector<std::vector<Op>> per_conn((size_t) nconn);
    for (int c = 0; c < nconn; c++) {
        ConnPlan &cp = p.conns[(size_t) c];
        int src = (int) rng.below(10);
        bool ordered = false;
        if (src < 4) {
            int n = (int) rng.range(1, 6);
            bool conn_script = rng.chance(1, 6);
            Script s = conn_script ? connect_conn(rng, cp, 100 * c) : random_script(rng, f, n, 100 * c);
            if (conn_script && rng.chance(1, 3)) {
                // a callback failure placed inside the CONNECT / upgrade exchange (the mode switches happen around these callbacks)
                static const int HK[] = {HK_RESPONSE_HEADERS, HK_RESPONSE_HEADERS, HK_RESPONSE_LINE, HK_RESPONSE_START, HK_RESPONSE_COMPLETE, HK_REQUEST_HEADERS, HK_REQUEST_COMPLETE, HK_RESPONSE_HEADER_DATA, HK_TRANSACTION_COMPLETE};
                CbFault cf; cf.hook = HK[rng.below(sizeof HK / sizeof *HK)]; cf.nth = (int) rng.range(1, (int64_t) s.req.size()); cf.action = rng.coin() ? CB_STOP : CB_ERROR; p.cbs.push_back(cf);
            }
            // stateful body parsers under faults: some requests carry a multipart/form-data body
            if (!conn_script && rng.chance(1, 4)) { size_t k = rng.below(s.req.size()); if (s.req[k].method != "HEAD" && s.req[k].method != "CONNECT" && s.res[k].interim.empty()) make_multipart_request(rng, s.req[k], rng.coin()); }
            // hostile values for the fields the library parses beyond "name: value" (credentials, cookies, content type, host, framing)
            if (!conn_script && rng.chance(1, 4)) {
                for (auto &m : s.req) if (rng.chance(2, 3)) m.headers.insert(m.headers.begin() + (long) rng.below(m.headers.size() + 1), soup_header(rng, false));
                for (auto &m : s.res) if (rng.chance(1, 4)) m.headers.insert(m.headers.begin() + (long) rng.below(m.headers.size() + 1), soup_header(rng, true));
            }
            if (!conn_script) build_conn_from_script(rng, s, cp, false);
        } else {
            ordered = rng.coin();
            conn_from_capture(rng, cp, per_conn[(size_t) c], c, ordered);
        }
        for (auto &x : cp.xchg) x.expect.clear();
        if (rng.chance(2, 5)) { int d = (int) rng.below(2); mutate_stream(rng, cp.stream[d], (int) rng.range(1, 4)); ordered = false; per_conn[(size_t) c].clear(); cp.xchg.clear(); }
        if (rng.chance(1, 8)) { // bare-LF line ends: legal for a tolerant recipient, not part of the well-formed domain
            for (int d = 0; d < 2; d++) { Bytes o; for (size_t i = 0; i < cp.stream[d].size(); i++) { if (cp.stream[d][i] == '\r' && i + 1 < cp.stream[d].size() && cp.stream[d][i + 1] == '\n' && rng.coin()) continue; o.push_back(cp.stream[d][i]); } cp.stream[d] = o; }
            ordered = false; per_conn[(size_t) c].clear(); cp.xchg.clear();
        }
        if (!ordered || rng.coin()) {
            per_conn[(size_t) c].clear();
            std::vector<Extent> m0, m1; for (auto &x : cp.xchg) { m0.push_back(x.req); m1.push_back(x.res); }
            static const size_t MEANS[] = {1, 2, 3, 5, 8, 16, 64, 512};
            int s0 = (int) rng.below(ST_ONECUT), s1 = (int) rng.below(ST_ONECUT);
            auto c0 = choose_cuts(rng, cp.stream[0], m0, s0, MEANS[rng.below(8)]);
            auto c1 = choose_cuts(rng, cp.stream[1], m1, s1, MEANS[rng.below(8)]);
            bool legal = !cp.xchg.empty() && rng.chance(7, 10);
            static const int BIAS[] = {20, 50, 80, 100};
            if (cp.xchg.empty()) {
                // no ground truth about message boundaries: requests-first most of the time, otherwise arbitrary order (F-REORDER)
                interleave_ops(rng, cp, c, c0, c1, rng.chance(6, 10) ? 100 : BIAS[rng.below(3)], false, false, per_conn[(size_t) c]);
            } else interleave_ops(rng, cp, c, c0, c1, BIAS[rng.below(4)], legal, rng.chance(1, 5), per_conn[(size_t) c]);
        }
    }
    if (prop == "C10" && rng.chance(1, 8)) {
        // limit exerciser: traffic built to run into each documented cap (hard field limit while buffering a request line /
        // header / chunk-size line / status line, 64 repetitions, the folded-header cap, max_tx)
        ConnPlan &cp = p.conns[0]; cp = ConnPlan(); per_conn[0].clear();
        long hard = p.cfg.get("field_hard", 18000);
        int kind = (int) rng.below(8);
        Bytes rq = "GET / HTTP/1.1\r\nHost: a\r\n", rs = "HTTP/1.1 200 OK\r\nContent-Length: 0\r\n";
        size_t over = (size_t) hard + (size_t) rng.range(1, 300);
        if (rng.chance(1, 3)) over = (size_t) hard + (size_t) rng.range(1, 3);   // right at the edge
        // where the over-long line is (for the "exceeding it is reported as an error" half): direction, offset of its first byte
        // and its length up to and including the line end
        auto long_line = [&](int dir, const Bytes &st, size_t start) { size_t e = st.find('\n', start); p.cfg.set("c10_long_dir", dir); p.cfg.set("c10_long_start", (long) start); p.cfg.set("c10_long_len", (long) ((e == std::string::npos ? st.size() : e + 1) - start)); };
        switch (kind) {
            case 0: rq = "GET /"; rq.append(over, 'a'); rq += " HTTP/1.1\r\nHost: a\r\n\r\n"; rs += "\r\n"; long_line(0, rq, 0); break;
            case 1: { size_t st0 = rq.size(); rq += "X-Long: "; rq.append(over, 'v'); rq += "\r\n\r\n"; rs += "\r\n"; long_line(0, rq, st0); break; }
            case 2: { rq = "POST / HTTP/1.1\r\nHost: a\r\nTransfer-Encoding: chunked\r\n\r\n"; size_t st0 = rq.size(); rq += "1;"; rq.append(over, 'e'); rq += "\r\na\r\n0\r\n\r\n"; rs += "\r\n"; long_line(0, rq, st0); break; }
            case 3: rq += "\r\n"; rs = "HTTP/1.1 200 "; rs.append(over, 'r'); rs += "\r\nContent-Length: 0\r\n\r\n"; long_line(1, rs, 0); break;
            case 4: { rq += "\r\n"; size_t st0 = rs.size(); rs += "X-Long: "; rs.append(over, 'v'); rs += "\r\n\r\n"; long_line(1, rs, st0); break; }
            case 5: for (int i = 0; i < 90; i++) { rq += "X-Rep: v\r\n"; rs += "X-Rep: v\r\n"; } rq += "\r\n"; rs += "\r\n"; break;
            case 6: { Bytes line = " "; line.append((size_t) std::min<long>(hard - 10, 900), 'c'); line += "\r\n"; rq += "X-Fold: v\r\n"; rs += "X-Fold: v\r\n"; size_t nl = 102400 / (line.size() - 3) + 20; if (rng.coin()) nl = (size_t) hard / (line.size() - 3) + 2; for (size_t i = 0; i < nl; i++) { rq += line; rs += line; }
                      // then one more continuation that has to be buffered (cut inside, below) while the pending header is already past the limit
                      if (rng.coin()) { Bytes last = " "; last.append(over, 'z'); last += "\r\n"; rq += last; rs += last; p.cfg.set("c10_long_tail", (long) last.size()); }
                      rq += "\r\n"; rs += "\r\n"; break; }
            default: { int n = (int) p.cfg.get("max_tx", 8) + 6; rq.clear(); rs.clear(); for (int i = 0; i < n; i++) { rq += "GET / HTTP/1.1\r\nHost: a\r\n\r\n"; rs += "HTTP/1.1 200 OK\r\nContent-Length: 0\r\n\r\n"; } if (!p.cfg.has("max_tx")) p.cfg.set("max_tx", 4); break; }
        }
        cp.stream[0] = rq; cp.stream[1] = rs;
        std::vector<Extent> none;
        static const size_t MEANS[] = {1, 7, 64, 512, 5000};
        auto c0 = choose_cuts(rng, cp.stream[0], none, ST_UNIFORM, MEANS[rng.below(5)]), c1 = choose_cuts(rng, cp.stream[1], none, ST_UNIFORM, MEANS[rng.below(5)]);
        if (kind == 6 && rng.chance(2, 3)) {
            // the folded-header cap is only reachable when no line has to be buffered (buffering is bounded by the hard limit):
            // chunks end on line boundaries
            for (int d = 0; d < 2; d++) {
                std::vector<size_t> &c = d ? c1 : c0; c.clear(); const Bytes &st = cp.stream[d]; size_t every = (size_t) (rng.coin() ? rng.range(1, 30) : rng.range(100, 400)), n = 0; for (size_t i = 0; i + 1 < st.size(); i++) if (st[i] == '\n' && ++n % every == 0) c.push_back(i + 1);
                long tail = p.cfg.get("c10_long_tail", 0);
                if (tail > 0 && st.size() > (size_t) tail + 2) { size_t b = st.size() - 2 - (size_t) tail; c.push_back(b); size_t step = (size_t) rng.range(20, 400); for (size_t q = b + step; q + 2 < st.size(); q += step) c.push_back(q); std::sort(c.begin(), c.end()); c.erase(std::unique(c.begin(), c.end()), c.end()); }
            }
        }
        interleave_ops(rng, cp, 0, c0, c1, 100, false, false, per_conn[0]);
        p.scenario = "chaos+limits";
    }
    // merge the connections' op lists (call-level interleaving of connections sharing one cfg)
    {
        std::vector<size_t> idx((size_t) nconn, 0);
        for (;;) {
            std::vector<int> live; for (int c = 0; c < nconn; c++) if (idx[(size_t) c] < per_conn[(size_t) c].size()) live.push_back(c);
            if (live.empty()) break;
            int c = live[rng.below(live.size())];
            p.ops.push_back(per_conn[(size_t) c][idx[(size_t) c]++]);
        }
    }
    // ---- faults, placed inside the traffic
    size_t nops = p.ops.size();
    if (nops && rng.chance(1, 5)) {   // capture loss
        int k = (int) rng.range(1, 2);
        for (int i = 0; i < k; i++) { Op &op = p.ops[rng.below(nops)]; if (op.kind == 'Q') op.kind = 'q'; else if (op.kind == 'S') op.kind = 's'; }
    } else if (nops && rng.chance(1, 6)) {
        // capture loss biased to where in-flight state is richest: the chunk(s) that carry the end of a message (the gap then
        // reaches or passes the end of a body that stateful consumers - multipart, urlencoded, decompressors - were fed before)
        std::vector<std::array<size_t, 2>> pos((size_t) nconn, std::array<size_t, 2>{{0, 0}});
        std::vector<std::pair<size_t, size_t>> ext(nops, std::make_pair((size_t) 0, (size_t) 0));
        for (size_t i = 0; i < nops; i++) { const Op &op = p.ops[i]; if (op.kind != 'Q' && op.kind != 'S') continue; int d = op.kind == 'S'; ext[i] = std::make_pair(pos[(size_t) op.conn][(size_t) d], pos[(size_t) op.conn][(size_t) d] + (size_t) op.n); pos[(size_t) op.conn][(size_t) d] += (size_t) op.n; }
        int c = (int) rng.below((uint64_t) nconn);
        const ConnPlan &cp = p.conns[(size_t) c];
        if (!cp.xchg.empty()) {
            const Exchange &x = cp.xchg[rng.below(cp.xchg.size())];
            int d = (int) rng.below(2); size_t E = (size_t) (d ? x.res.b : x.req.b);
            char want = d ? 'S' : 'Q';
            long last = -1;
            for (size_t i = 0; i < nops; i++) {
                Op &op = p.ops[i]; if (op.conn != c || op.kind != want) continue;
                if (ext[i].first < E && E <= ext[i].second) { op.kind = d ? 's' : 'q'; if (last >= 0 && rng.coin()) p.ops[(size_t) last].kind = d ? 's' : 'q'; break; }
                last = (long) i;
            }
        }
    }
    if (rng.chance(1, 4)) {   // end of stream at an arbitrary instant; traffic after it stays in the plan (data after close)
        Op op; op.kind = rng.chance(1, 3) ? 'c' : 'C'; op.conn = (int) rng.below((uint64_t) nconn);
        size_t at = (size_t) rng.below(nops + 1);
        p.ops.insert(p.ops.begin() + (long) at, op);
        if (rng.chance(2, 3)) { size_t keep = at + 1 + (size_t) rng.below(3); if (keep < p.ops.size()) p.ops.resize(keep); }
    }
    if (rng.chance(1, 8)) { Op op; op.kind = 'D'; op.conn = (int) rng.below((uint64_t) nconn); p.ops.insert(p.ops.begin() + (long) rng.below(p.ops.size() + 1), op); }
    if (rng.chance(1, 10)) { Op op; op.kind = rng.coin() ? 'Z' : 'z'; op.conn = (int) rng.below((uint64_t) nconn); p.ops.insert(p.ops.begin() + (long) rng.below(p.ops.size() + 1), op); }
    if (rng.chance(1, 10)) { Op op; op.kind = 'T'; op.n = (long) rng.below(2); op.conn = (int) rng.below((uint64_t) nconn); p.ops.insert(p.ops.begin() + (long) rng.below(p.ops.size() + 1), op); }
    if (rng.chance(1, 25)) { p.cfg.set("explicit_open", 1); if (rng.coin()) { Op op; op.kind = 'O'; op.conn = 0; p.ops.insert(p.ops.begin(), op); } }
    else if (rng.chance(1, 25)) { Op op; op.kind = 'R'; op.conn = 0; p.ops.insert(p.ops.begin() + (long) rng.below(p.ops.size() + 1), op); }
    if (rng.chance(1, 12)) p.cfg.set("autoclose", 0);   // teardown without close
    if (rng.chance(1, 3)) {   // callback behaviours
        int k = (int) rng.range(1, 2);
        for (int i = 0; i < k; i++) {
            CbFault cf; cf.hook = (int) rng.below(HK_LOG + 1); cf.nth = (int) rng.range(1, 6);
            static const int ACT[] = {CB_DECLINED, CB_STOP, CB_ERROR, CB_ERROR, CB_STOP, CB_REG_TX_HOOKS, CB_DESTROY_DONE_TX};
            cf.action = ACT[rng.below(7)];
            p.cbs.push_back(cf);
        }
    }
    // a request-side-only close (and/or a full close) after all the traffic: the teardown calls then meet whatever state the
    // faults above left behind (a stream stopped by a callback, a dangling transaction, a suspended direction)
    if (rng.chance(1, 3)) {
        int c = (int) rng.below((uint64_t) nconn);
        { Op op; op.kind = 'c'; op.conn = c; p.ops.push_back(op); }
        if (rng.coin()) { Op op; op.kind = 'C'; op.conn = c; p.ops.push_back(op); }
        if (rng.chance(1, 4)) { Op op; op.kind = 'c'; op.conn = c; p.ops.push_back(op); }
    }
    if (rng.chance(1, 6)) { p.cfg.set("clock_mode", (long) rng.range(1, 4)); p.cfg.set("clock_every", (long) rng.range(1, 5)); p.cfg.set("clock_jump", (long) rng.range(1000, 5000000)); }
    if (p.cfg.get("extract_files", 0) && rng.chance(1, 3)) {
        switch (rng.below(3)) { case 0: p.cfg.set("fs_mkstemp_at", 1); break; case 1: p.cfg.set("fs_write_at", (long) rng.range(1, 3)); p.cfg.set("fs_write_mode", (long) rng.below(3)); break; default: p.cfg.set("fs_close_at", 1); }
    }
}

// ================================================================================================
// Scenario: C03 segmentation invariance (differential: same history, two chunkings)
// ================================================================================================

static void wellformed_cfg(Rng &rng, Cfg &cfg) {
    random_cfg(rng, cfg, true);
    cfg.set("cookies", 1); cfg.set("auth", 1); cfg.set("urlenc", 1); cfg.set("mpart", 1);
    cfg.set("wellformed", 1);
}

static void skeleton_ops(Rng &rng, const ConnPlan &cp, int skeleton, const std::vector<size_t> &c0, const std::vector<size_t> &c1, std::vector<Op> &ops) {
    // skeleton 0: request i, response i, ...   skeleton 1: all requests, then all responses (chunks may span messages)
    (void) rng;
    auto emit = [&](int d, size_t a, size_t b, const std::vector<size_t> &cuts) {
        size_t p = a;
        for (size_t c : cuts) { if (c <= a || c >= b) continue; Op op; op.kind = d ? 'S' : 'Q'; op.n = (long) (c - p); ops.push_back(op); p = c; }
        if (b > p) { Op op; op.kind = d ? 'S' : 'Q'; op.n = (long) (b - p); ops.push_back(op); }
    };
    if (skeleton == 1) { emit(0, 0, cp.stream[0].size(), c0); emit(1, 0, cp.stream[1].size(), c1); return; }
    for (auto &x : cp.xchg) { emit(0, (size_t) x.req.a, (size_t) x.req.b, c0); emit(1, (size_t) x.res.a, (size_t) x.res.b, c1); }
}

struct PartSpec;
static void c14_build(Rng &rng, Bytes &content_type, Bytes &body, std::vector<PartSpec> &parts, bool &lf_only);
static void c03_plan(Rng &rng, Plan &p, uint64_t variant) {
    p.prop = "C03"; p.scenario = "diff";
    wellformed_cfg(rng, p.cfg);
    GenFeatures f; f.wild_path = true; f.wild_host = true;
    // invariance does not depend on the decoder configuration: draw every switch (the normalised URI is part of the comparison)
    if (rng.chance(1, 2)) { p.cfg.set("dec_swarm", (long) rng.below(1000000) + 1); p.cfg.set("dec_swarm_urlenc", rng.coin()); }
    int n = (int) rng.range(1, 4);
    if (rng.chance(1, 3)) { f.max_body = 40; f.many_headers = false; }   // short histories: the single-cut sweep visits every offset
    Script s = random_script(rng, f, n, 0);
    // the statement covers parameters: some requests carry a multipart/form-data body (the matcher keeps state across calls)
    if (rng.chance(1, 4)) { size_t k = rng.below(s.req.size()); if (s.req[k].method != "HEAD" && s.res[k].interim.empty()) make_multipart_request(rng, s.req[k]); }   // (a HEAD exchange has a body-less response by construction)
    p.conns.resize(1);
    build_conn_from_script(rng, s, p.conns[0], false);
    ConnPlan &cp = p.conns[0];
    std::vector<Extent> m0, m1; for (auto &x : cp.xchg) { m0.push_back(x.req); m1.push_back(x.res); }
    int skeleton = (int) rng.below(2);
    p.cfg.set("skeleton", skeleton);
    int strat = (int) rng.below(5);
    std::vector<size_t> c0, c1;
    static const size_t MEANS[] = {1, 2, 3, 5, 8, 16, 64};
    switch (strat) {
        case 0: {   // sweep: one cut, position derived from the variant counter so that consecutive runs walk the stream
            size_t total = cp.stream[0].size() + cp.stream[1].size();
            size_t pos = total > 2 ? 1 + (size_t) ((variant * 2654435761ULL + rng.below(total)) % (total - 1)) : 1;
            if (pos < cp.stream[0].size()) c0.push_back(pos); else { size_t q = pos - cp.stream[0].size(); if (q > 0) c1.push_back(q); }
            break;
        }
        case 1: c0 = choose_cuts(rng, cp.stream[0], m0, ST_UNIFORM, MEANS[rng.below(7)]); c1 = choose_cuts(rng, cp.stream[1], m1, ST_UNIFORM, MEANS[rng.below(7)]); break;
        case 2: c0 = choose_cuts(rng, cp.stream[0], m0, ST_STORM, 64); c1 = choose_cuts(rng, cp.stream[1], m1, ST_STORM, 64); break;
        case 3: c0 = choose_cuts(rng, cp.stream[0], m0, ST_BIASED, 6); c1 = choose_cuts(rng, cp.stream[1], m1, ST_BIASED, 6); break;
        default: c0 = choose_cuts(rng, cp.stream[0], m0, ST_UNIFORM, 1); c1 = choose_cuts(rng, cp.stream[1], m1, ST_UNIFORM, 1); break;  // one byte per call
    }
    skeleton_ops(rng, cp, skeleton, c0, c1, p.ops);
}

// the reference schedule of a plan: same direction order, maximal chunks (adjacent same-direction data ops merged)
static Plan reference_schedule(const Plan &p) {
    Plan r = p;
    r.ops.clear();
    for (auto &op : p.ops) {
        if (!r.ops.empty() && (op.kind == 'Q' || op.kind == 'S') && r.ops.back().kind == op.kind && r.ops.back().conn == op.conn && !op.af && !r.ops.back().af)
            r.ops.back().n += op.n;
        else r.ops.push_back(op);
    }
    return r;
}

static std::string collapse_data(const std::string &seq) {
    return seq;   // TxRec::cbseq is already collapsed
}

static bool compare_runs_c03(const RunResult &a, const RunResult &b, std::string &oracle, std::string &detail) {
    if (a.txs.size() != b.txs.size()) { oracle = "C03.tx_count"; detail = strfmt("reference=%zu variant=%zu", a.txs.size(), b.txs.size()); return false; }
    for (size_t i = 0; i < a.txs.size(); i++) {
        const TxRec &x = a.txs[i], &y = b.txs[i];
        std::string d = dump_first_diff(x.dump, y.dump, true);
        if (!d.empty()) {
            const Bytes *va = dump_get(x.dump, d), *vb = dump_get(y.dump, d);
            oracle = "C03." + d;
            // indexes inside the oracle id would split one cause into many classes: normalise digits
            for (auto &ch : oracle) if (ch >= '0' && ch <= '9') ch = 'N';
            oracle = "C03." + d; for (size_t k = 4; k < oracle.size(); k++) if (isdigit((unsigned char) oracle[k])) oracle[k] = 'N';
            detail = strfmt("tx#%zu %s: reference='%s' variant='%s'", i, d.c_str(), va ? esc_encode(va->substr(0, 80)).c_str() : "-", vb ? esc_encode(vb->substr(0, 80)).c_str() : "-");
            return false;
        }
        for (int s = 0; s < 2; s++) {
            if (x.body[s] != y.body[s]) { oracle = s ? "C03.res_body" : "C03.req_body"; detail = strfmt("tx#%zu body bytes differ: reference %zu bytes, variant %zu bytes", i, x.body[s].size(), y.body[s].size()); return false; }
            if (x.hdr_raw[s] != y.hdr_raw[s]) { oracle = s ? "C03.res_header_data" : "C03.req_header_data"; detail = strfmt("tx#%zu raw header data differ (%zu vs %zu bytes)", i, x.hdr_raw[s].size(), y.hdr_raw[s].size()); return false; }
            if (x.trl_raw[s] != y.trl_raw[s]) { oracle = s ? "C03.res_trailer_data" : "C03.req_trailer_data"; detail = strfmt("tx#%zu raw trailer data differ", i); return false; }
        }
        if (x.file_data != y.file_data) { oracle = "C03.file_data"; detail = strfmt("tx#%zu", i); return false; }
        if (collapse_data(x.cbseq) != collapse_data(y.cbseq)) { oracle = "C03.cb_order"; detail = strfmt("tx#%zu reference=%s variant=%s", i, x.cbseq.c_str(), y.cbseq.c_str()); return false; }
    }
    return true;
}

// ================================================================================================
// Scenario: WELL-FORMED traffic with ground truth (C02 fidelity, C04 pairing, C06 bodies)
// ================================================================================================

static void wf_plan(Rng &rng, Plan &p, const std::string &prop) {
    p.prop = prop; p.scenario = "wellformed";
    wellformed_cfg(rng, p.cfg);
    GenFeatures f;
    int n = (int) rng.range(1, 6);
    if (prop == "C02") { n = (int) rng.range(1, 16); }
    if (prop == "C04") { n = (int) rng.range(1, rng.chance(1, 4) ? 40 : 12); f.max_body = 60; f.many_headers = false; f.close_delim = rng.coin(); }
    if (prop == "C06") { f.max_body = rng.chance(1, 4) ? 9000 : 400; f.hostile_body = true; f.many_headers = false; }
    f.wild_path = true;
    f.expect_withheld = true;   // (both schedules used below keep "the next request follows the refusal")
    // the way an IDS in streaming mode uses the library: completed transactions are destroyed between calls (2) and their list
    // slots recycled with htp_connp_tx_freed (3) while later pipelined transactions are still in flight
    if (rng.chance(1, prop == "C04" ? 3 : 6)) p.cfg.set("disposal", (long) rng.range(2, 3));
    Script s = random_script(rng, f, n, 0);
    p.conns.resize(1);
    build_conn_from_script(rng, s, p.conns[0], true);
    ConnPlan &cp = p.conns[0];
    std::vector<Extent> m0, m1; for (auto &x : cp.xchg) { m0.push_back(x.req); m1.push_back(x.res); }
    static const size_t MEANS[] = {1, 2, 3, 5, 8, 16, 64, 512};
    int sched = (int) rng.below(10);
    if (prop == "C02" && sched < 5) {
        // the schedule the fidelity claim is made for: one chunk per message, request i before response i
        std::vector<size_t> c0 = choose_cuts(rng, cp.stream[0], m0, ST_WHOLE, 0), c1 = choose_cuts(rng, cp.stream[1], m1, ST_WHOLE, 0);
        skeleton_ops(rng, cp, 0, c0, c1, p.ops);
        return;
    }
    int s0 = (int) rng.below(ST_ONECUT), s1 = (int) rng.below(ST_ONECUT);
    auto c0 = choose_cuts(rng, cp.stream[0], m0, s0, MEANS[rng.below(8)]);
    auto c1 = choose_cuts(rng, cp.stream[1], m1, s1, MEANS[rng.below(8)]);
    static const int BIAS[] = {20, 50, 80, 100};
    // C06: a server may answer as soon as it has the request head (a refusal while the body is still being sent): in a quarter
    // of the plans a response may be offered once the head of its request has been, the rest of the body following later
    bool early = prop == "C06" && rng.chance(1, 4);
    if (early) p.cfg.set("c06_early_responses", 1);
    interleave_ops(rng, cp, 0, c0, c1, BIAS[rng.below(4)], true, early, p.ops);
}

static const TxRec *tx_of_exchange(const RunResult &r, size_t conn, size_t i) {
    if (conn >= r.conns.size() || i >= r.conns[conn].txs.size()) return nullptr;
    return &r.txs[(size_t) r.conns[conn].txs[i]];
}

// C02: everything the spec determines is reported exactly (keys without '@' are dump keys)
static bool check_fidelity(const Plan &p, const RunResult &r, const char *pfx, std::string &oracle, std::string &detail, size_t only_first = (size_t) -1) {
    for (size_t c = 0; c < p.conns.size(); c++) {
        const ConnPlan &cp = p.conns[c];
        if (only_first != (size_t) -1) { if (r.conns[c].txs.size() < only_first) { oracle = std::string(pfx) + ".tx_count"; detail = strfmt("conn %zu: %zu transactions reported, at least %zu exchanges sent", c, r.conns[c].txs.size(), only_first); return false; } }
        else if (r.conns[c].txs.size() != cp.xchg.size()) { oracle = std::string(pfx) + ".tx_count"; detail = strfmt("conn %zu: %zu exchanges sent, %zu transactions reported", c, cp.xchg.size(), r.conns[c].txs.size()); return false; }
        for (size_t i = 0; i < cp.xchg.size() && i < only_first; i++) {
            const TxRec *t = tx_of_exchange(r, c, i);
            if (!t || !t->have_dump) { oracle = std::string(pfx) + ".tx_missing"; detail = strfmt("exchange %zu", i); return false; }
            for (auto &e : cp.xchg[i].expect) {
                const std::string &k = e.first;
                if (k[0] == '@') {
                    if (k == "@host.ci") { const Bytes *v = dump_get(t->dump, "req.host"); if (!v || lower(*v) != lower(e.second)) { oracle = std::string(pfx) + ".req.host"; detail = strfmt("tx#%zu expected '%s' got '%s'", i, esc_encode(e.second).c_str(), v ? esc_encode(*v).c_str() : "-"); return false; } }
                    else if (k == "@method.nolead") { const Bytes *v = dump_get(t->dump, "req.method"); size_t b = 0; while (v && b < v->size() && ((*v)[b] == ' ' || (*v)[b] == '\t')) b++; if (!v || v->substr(b) != e.second) { oracle = std::string(pfx) + ".req.method"; detail = strfmt("tx#%zu expected '%s' got '%s'", i, esc_encode(e.second).c_str(), v ? esc_encode(*v).c_str() : "<absent>"); return false; } }
                    else if (k == "@param.count") { const Bytes *v = dump_get(t->dump, "req.param.count"); if (!v || *v != e.second) { oracle = std::string(pfx) + ".req.param.count"; detail = strfmt("tx#%zu expected %s got %s", i, e.second.c_str(), v ? v->c_str() : "-"); return false; } }
                    continue;
                }
                const Bytes *v = dump_get(t->dump, k);
                if (!v || *v != e.second) {
                    std::string kk = k; for (auto &ch : kk) if (isdigit((unsigned char) ch)) ch = 'N';
                    oracle = std::string(pfx) + "." + kk;
                    detail = strfmt("tx#%zu %s: sent '%s' reported '%s'", i, k.c_str(), esc_encode(e.second.substr(0, 100)).c_str(), v ? esc_encode(v->substr(0, 100)).c_str() : "<absent>");
                    return false;
                }
            }
            for (auto &kv : t->dump) if (kv.first.size() > 7 && kv.first.compare(kv.first.size() - 7, 7, ".lookup") == 0 && kv.second != "ok") {
                oracle = std::string(pfx) + ".header_lookup_case_insensitive"; detail = strfmt("tx#%zu %s", i, kv.first.c_str()); return false;
            }
        }
    }
    return true;
}

static long expect_num(const Exchange &x, const char *key, long def) { for (auto &e : x.expect) if (e.first == key) return atol(e.second.c_str()); return def; }
static const Bytes *expect_get(const Exchange &x, const char *key) { for (auto &e : x.expect) if (e.first == key) return &e.second; return nullptr; }

// C06 ground-truth half
static bool check_bodies(const Plan &p, const RunResult &r, std::string &oracle, std::string &detail) {
    for (size_t c = 0; c < p.conns.size(); c++) {
        const ConnPlan &cp = p.conns[c];
        if (r.conns[c].txs.size() != cp.xchg.size()) { oracle = "C06.tx_count"; detail = strfmt("%zu exchanges sent, %zu transactions reported", cp.xchg.size(), r.conns[c].txs.size()); return false; }
        for (size_t i = 0; i < cp.xchg.size(); i++) {
            const TxRec *t = tx_of_exchange(r, c, i);
            if (!t) { oracle = "C06.tx_missing"; return false; }
            for (int s = 0; s < 2; s++) {
                const Bytes *body = expect_get(cp.xchg[i], s ? "@body.res" : "@body.req");
                if (!body) continue;
                const char *side = s ? "res" : "req";
                if (t->body[s] != *body) {
                    size_t k = 0; while (k < body->size() && k < t->body[s].size() && (*body)[k] == t->body[s][k]) k++;
                    oracle = strfmt("C06.%s_body_bytes", side); detail = strfmt("tx#%zu sent %zu bytes, delivered %zu bytes, first difference at offset %zu", i, body->size(), t->body[s].size(), k); return false;
                }
                long hasbody = expect_num(cp.xchg[i], s ? "@hasbody.res" : "@hasbody.req", 0);
                if (hasbody && t->n_complete[s] && t->eob_before_complete[s] < 1) { oracle = strfmt("C06.%s_no_end_of_body_marker", side); detail = strfmt("tx#%zu", i); return false; }
                const Bytes *el = dump_get(t->dump, s ? "res.entlen" : "req.entlen"), *ml = dump_get(t->dump, s ? "res.msglen" : "req.msglen");
                if (el && atol(el->c_str()) != (long) body->size()) { oracle = strfmt("C06.%s_entity_len", side); detail = strfmt("tx#%zu entity_len=%s body=%zu", i, el->c_str(), body->size()); return false; }
                long wire = expect_num(cp.xchg[i], s ? "@msglen.res" : "@msglen.req", -1);
                if (ml && wire >= 0 && atol(ml->c_str()) != wire) { oracle = strfmt("C06.%s_message_len", side); detail = strfmt("tx#%zu message_len=%s wire=%ld", i, ml->c_str(), wire); return false; }
            }
        }
    }
    return true;
}

// C04: pairing by the ids the actors embedded, order, count, completion, and the pipelining indicator
static int id_in_uri(const Bytes &uri) { size_t p = uri.find("/id"); if (p == std::string::npos) return -1; return atoi(uri.c_str() + p + 3); }

static bool check_pairing(const Plan &p, const RunResult &r, std::string &oracle, std::string &detail) {
    const ConnPlan &cp = p.conns[0];
    size_t n = cp.xchg.size();
    if (r.conns[0].txs.size() != n) { oracle = "C04.tx_count"; detail = strfmt("%zu exchanges sent, %zu transactions reported", n, r.conns[0].txs.size()); return false; }
    for (size_t i = 0; i < n; i++) {
        const TxRec *t = tx_of_exchange(r, 0, i);
        const Bytes *uri = dump_get(t->dump, "req.uri");
        int rid = uri ? id_in_uri(*uri) : -1, sid = -1;
        for (size_t h = 0;; h++) {
            const Bytes *nm = dump_get(t->dump, strfmt("res.hdr.%zu.name", h)); if (!nm) break;
            if (lower(*nm) == "x-sim-id") { const Bytes *v = dump_get(t->dump, strfmt("res.hdr.%zu.value", h)); if (v) sid = atoi(v->c_str()); }
        }
        if (rid != (int) i) { oracle = "C04.request_order"; detail = strfmt("transaction %zu carries request id %d", i, rid); return false; }
        if (sid != (int) i) { oracle = "C04.response_paired_with_wrong_request"; detail = strfmt("transaction %zu: request id %d, response id %d", i, rid, sid); return false; }
        if (t->n_complete[2] != 1) { oracle = "C04.not_complete_after_close"; detail = strfmt("transaction %zu: TRANSACTION_COMPLETE delivered %d times", i, t->n_complete[2]); return false; }
    }
    // pipelining indicator, from the op list (never from libhtp state), with the tolerance window of DESIGN C04
    long cur[2] = {0, 0};
    bool must_set = false, may_set = false;
    for (auto &op : p.ops) {
        int d = op.kind == 'Q' ? 0 : op.kind == 'S' ? 1 : -1; if (d < 0) continue;
        long a = cur[d], b = a + op.n; cur[d] = b;
        if (d != 0) continue;
        for (size_t i = 1; i < n; i++) {
            const Exchange &x = cp.xchg[i];
            long first_line_end = x.req.a; { size_t e = cp.stream[0].find("\r\n", (size_t) x.req.a); first_line_end = e == std::string::npos ? x.req.b : (long) e + 2; }
            // libhtp notices a new message only once its first line is complete (both directions probe the line), so
            // "begun" has a window too: certainly begun = first line completely offered, certainly not = no byte offered
            const Exchange &pv = cp.xchg[i - 1];
            long prev_res_line_end; { size_t e = cp.stream[1].find("\r\n", (size_t) pv.res.a); prev_res_line_end = e == std::string::npos ? pv.res.b : (long) e + 2; }
            bool prev_response_certainly_begun = cur[1] >= prev_res_line_end;
            bool prev_response_certainly_not_begun = cur[1] <= pv.res.a;
            if (a <= x.req.a && x.req.a < b && !prev_response_certainly_begun) may_set = true;
            if (a < first_line_end && first_line_end <= b && prev_response_certainly_not_begun) must_set = true;
        }
    }
    bool flag = (r.conns[0].conn_flags & 1) != 0;
    if (must_set && !flag) { oracle = "C04.pipelining_flag_missing"; detail = "a request line was completely offered before the response to the previous request had begun, flag not set"; return false; }
    if (!may_set && flag) { oracle = "C04.pipelining_flag_spurious"; detail = "every request began only after the previous response had begun, flag set"; return false; }
    return true;
}

// ================================================================================================
// Scenario: C07 decompression fidelity (ground truth) and bomb containment (all inputs)
// ================================================================================================

static Bytes c07_payload(Rng &rng, int &kind) {
    kind = (int) rng.below(9);
    Bytes b; size_t n = 0;
    switch (kind) {
        case 0: break;                                                      // empty
        case 1: b = "x"; break;
        case 2: n = (size_t) rng.range(2, 400); for (size_t i = 0; i < n; i++) b.push_back("the quick brown fox \r\n<html>"[rng.below(29)]); break;
        case 3: n = (size_t) rng.range(2, 3000); for (size_t i = 0; i < n; i++) b.push_back((char) rng.below(256)); break;
        case 4: { static const size_t S[] = {8191, 8192, 8193, 16384, 16385}; n = S[rng.below(5)]; for (size_t i = 0; i < n; i++) b.push_back((char) ('a' + (i * 7 + rng.below(3)) % 26)); break; }
        case 5: n = (size_t) rng.range(20000, 70000); for (size_t i = 0; i < n; i++) b.push_back((char) ('a' + rng.below(4))); break;
        case 6: n = (size_t) rng.range(1000, 200000); b.assign(n, rng.coin() ? '\0' : 'A'); break;   // highly compressible
        case 7: n = (size_t) rng.range(9000, 30000); for (size_t i = 0; i < n; i++) b.push_back((char) rng.below(256)); break;   // incompressible, > one output buffer
        default: n = (size_t) rng.range(2, 100); for (size_t i = 0; i < n; i++) b.push_back((char) ('0' + rng.below(10))); break;
    }
    return b;
}

static const char *C07_CODINGS[] = {"gzip", "x-gzip", "deflate-raw", "deflate-zlib", "lzma", "gzip,gzip", "deflate,deflate", "gzip-labelled-deflate", "deflate-labelled-gzip", "plain-labelled-gzip", "plain-labelled-deflate",
                                     // mixed two-layer lists: in the order libhtp undoes them (first token = outermost coding), in the order the RFC lists them
                                     // (applied order; rescued by the restart logic), and as two header lines that are merged
                                     "gzip,deflate", "deflate,gzip.rfc-order", "gzip+deflate.two-lines"};
static const int C07_NCOD = (int) (sizeof C07_CODINGS / sizeof *C07_CODINGS);

static void c07_plan(Rng &rng, Plan &p, uint64_t variant) {
    p.prop = "C07"; p.scenario = "coding";
    wellformed_cfg(rng, p.cfg);
    p.cfg.set("res_decomp", 1);
    p.cfg.set("clock_step", 1);   // well-behaved clock: the verdict must not depend on machine load (seam S7)
    if (rng.chance(1, 3)) { static const long GB[] = {16, 61, 256, 1024, 8191}; p.cfg.set("gzip_buf", GB[rng.below(5)]); }   // tuning knob (guarded hook): small output buffers
    int pk; Bytes payload = c07_payload(rng, pk);
    if (rng.chance(1, 5)) { static const long BL[] = {1024, 4096, 65536}; p.cfg.set("bomb_limit", BL[rng.below(3)]); }   // containment next to fidelity: see check_c07
    int cod = (int) ((variant + rng.below(C07_NCOD)) % C07_NCOD);
    std::string cname = C07_CODINGS[cod];
    p.cfg.set("c07_coding", cod); p.cfg.set("c07_payload_kind", pk);
    int level = (int) rng.range(1, 9);
    Bytes body; std::string ce;
    bool passthrough_expected = false;
    if (cname == "gzip" || cname == "x-gzip") { body = z_encode(payload, 31, level, rng.chance(1, 3) ? (int) rng.below(16) : 0); ce = cname; }
    else if (cname == "deflate-raw") { body = z_encode(payload, -15, level, 0); ce = "deflate"; }
    else if (cname == "deflate-zlib") { body = z_encode(payload, 15, level, 0); ce = "deflate"; }
    else if (cname == "lzma") { body = lzma_alone_encode(payload, 1u << 16); ce = "lzma"; if (payload.size() > 100000) payload.resize(100000), body = lzma_alone_encode(payload, 1u << 16); }
    else if (cname == "gzip,gzip") { body = z_encode(z_encode(payload, 31, level, 0), 31, level, 0); static const char *L[] = {"gzip, gzip", "gzip,gzip", "x-gzip, gzip", "x-gzip,x-gzip", "gzip, x-gzip"}; ce = L[rng.below(5)]; }
    else if (cname == "deflate,deflate") { body = z_encode(z_encode(payload, -15, level, 0), -15, level, 0); static const char *L[] = {"deflate, deflate", "x-deflate, deflate", "x-deflate,x-deflate"}; ce = L[rng.below(3)]; }
    else if (cname == "gzip,deflate") { body = z_encode(z_encode(payload, -15, level, 0), 31, level, 0); { static const char *L[] = {"gzip, deflate", "GZIP,x-deflate", "x-gzip, deflate", "x-gzip,x-deflate", "X-GZIP , Deflate"}; ce = L[rng.below(5)]; } }
    else if (cname == "deflate,gzip.rfc-order") { body = z_encode(z_encode(payload, -15, level, 0), 31, level, 0); ce = "deflate, gzip"; }
    else if (cname == "gzip+deflate.two-lines") { body = z_encode(z_encode(payload, -15, level, 0), 31, level, 0); ce = std::string("gzip") + (char) 1 + "deflate"; }   // split into two header lines below
    else if (cname == "gzip-labelled-deflate") { body = z_encode(payload, 31, level, 0); ce = "deflate"; }
    else if (cname == "deflate-labelled-gzip") { body = z_encode(payload, -15, level, 0); ce = "gzip"; }
    else { // plain text announced as compressed: must be passed through, not lost
        if (payload.empty()) payload = "plain";
        // avoid accidental validity: start with a byte no deflate/gzip/zlib stream of ours starts with
        payload[0] = 'H'; if (payload.size() > 1) payload[1] = 'T';
        // 'H' opens a *stored* raw-deflate block; if bytes 3-4 happen to be the complement of bytes 1-2 the body is a
        // valid deflate prefix after all (seen once in 118 000 runs): make sure it is not
        if (payload.size() >= 5) { unsigned len = (unsigned char) payload[1] | ((unsigned char) payload[2] << 8), nlen = (unsigned char) payload[3] | ((unsigned char) payload[4] << 8); if (((len ^ 0xffffu) & 0xffffu) == nlen) payload[3] = (char) (payload[3] ^ 0x55); }
        // ... or a body that begins like a gzip member header with optional fields (which the restart logic knows how to skip)
        // and goes on with something no inflater accepts: a block of the reserved type. Not valid: passed through, all of it.
        if (rng.chance(1, 4)) {
            // (one optional field at a time: the library's own header skipping, simpler than RFC 1952, handles exactly one, and what
            //  follows the skipped part has to be undecodable for it too - text after a half-skipped header can be "valid" deflate by accident)
            static const int FLG[] = {1, 2, 8, 16};
            Bytes hd = std::string("\x1f\x8b\x08", 3); int flg = FLG[rng.below(4)]; hd.push_back((char) flg); hd += std::string("\0\0\0\0\0\x03", 6);
            if (flg & 8) { hd += "name.txt"; hd.push_back('\0'); } if (flg & 16) { hd += "comment"; hd.push_back('\0'); } if (flg & 2) { hd.push_back((char) 0x12); hd.push_back((char) 0x34); }
            hd.push_back((char) (rng.coin() ? 0x07 : 0x06));
            payload = hd + payload;
        }
        body = payload; ce = cname == "plain-labelled-gzip" ? "gzip" : "deflate"; passthrough_expected = true;
    }
    if (body.size() > 120000) { // keep one-byte schedules inside the simulated time limit
        payload.resize(std::min<size_t>(payload.size(), 60000)); body = z_encode(payload, 31, 1, 0); ce = "gzip"; p.cfg.set("c07_coding", 0);
    }
    (void) passthrough_expected;
    Script s;
    MsgSpec q; q.method = "GET"; q.target = "/id0/c07"; { HeaderSpec h; h.name = "Host"; h.value = "c07.example"; q.headers.push_back(h); }
    MsgSpec r; r.is_request = false; r.status = 200; r.reason = "OK";
    // request bodies are decompressed too when the configuration asks for it (one coding, no lists): a quarter of the single-coding runs
    bool req_side = ce.find(',') == std::string::npos && ce.find('\x01') == std::string::npos && rng.chance(1, 4);
    p.cfg.set("c07_side", req_side ? 0 : 1);
    if (req_side) { p.cfg.set("req_decomp", 1); q.method = "POST"; r.framing = FR_CL; { HeaderSpec h; h.name = "Content-Length"; h.value = "0"; r.headers.push_back(h); } }
    MsgSpec &m = req_side ? q : r;
    if (ce.find('\x01') != std::string::npos) { size_t at = ce.find('\x01'); HeaderSpec h1; h1.name = "Content-Encoding"; h1.value = ce.substr(0, at); m.headers.push_back(h1); HeaderSpec h2; h2.name = rng.coin() ? "Content-Encoding" : "content-encoding"; h2.value = ce.substr(at + 1); m.headers.push_back(h2); }
    else { HeaderSpec h; h.name = rng.coin() ? "Content-Encoding" : "content-encoding"; h.value = ce; m.headers.push_back(h); }
    { HeaderSpec h; h.name = "X-Sim-Id"; h.value = "0"; r.headers.push_back(h); }
    m.body = body; m.payload = payload;
    int fr = (int) rng.below(req_side ? 2 : 3);
    if (body.empty() && fr == 2) fr = 0;
    if (fr == 0) { m.framing = FR_CL; HeaderSpec h; h.name = "Content-Length"; h.value = strfmt("%zu", body.size()); m.headers.push_back(h); }
    else if (fr == 1) { r.framing = FR_CHUNKED; HeaderSpec h; h.name = "Transfer-Encoding"; h.value = "chunked"; r.headers.push_back(h); size_t left = body.size(); while (left) { size_t c = std::min<size_t>(left, (size_t) rng.range(1, 5000)); r.chunk_sizes.push_back(c); left -= c; if (r.chunk_sizes.size() > 300) { r.chunk_sizes.push_back(left); break; } } }
    else r.framing = FR_CLOSE;
    s.req.push_back(q); s.res.push_back(r);
    p.conns.resize(1);
    build_conn_from_script(rng, s, p.conns[0], true);
    ConnPlan &cp = p.conns[0];
    std::vector<Extent> m0, m1; for (auto &x : cp.xchg) { m0.push_back(x.req); m1.push_back(x.res); }
    static const size_t MEANS[] = {1, 2, 3, 4, 5, 8, 16, 64, 512, 4096};
    int strat = (int) rng.below(6);
    std::vector<size_t> c1;   // cuts of the stream that carries the coded body
    const Exchange &x = cp.xchg[0];
    const int sd = req_side ? 0 : 1;
    const Bytes &st = cp.stream[sd];
    const size_t head_end = (size_t) (req_side ? x.req_head_end : x.res_head_end), msg_end = (size_t) (req_side ? x.req.b : x.res.b);
    if (strat == 0) {   // sweep a single cut through the start of the compressed body (header of the coding) and its end (trailer)
        size_t bs = head_end, be = msg_end;
        size_t span = std::min<size_t>(40, be - bs);
        size_t off = (size_t) ((variant / C07_NCOD) % (2 * span + 1));
        size_t pos = off <= span ? bs + off : be - (off - span);
        if (pos > 0 && pos < st.size()) c1.push_back(pos);
    } else if (strat == 1) { c1 = choose_cuts(rng, st, req_side ? m0 : m1, ST_UNIFORM, MEANS[rng.below(5)]); }   // tiny chunks
    else if (strat == 2) { // tiny first chunks of the body, then large
        size_t pcut = head_end; c1.push_back(pcut); for (int i = 0; i < 6 && pcut < st.size(); i++) { pcut += (size_t) rng.range(1, 4); c1.push_back(pcut); }
        std::sort(c1.begin(), c1.end()); c1.erase(std::unique(c1.begin(), c1.end()), c1.end()); while (!c1.empty() && c1.back() >= st.size()) c1.pop_back();
    } else c1 = choose_cuts(rng, st, req_side ? m0 : m1, (int) rng.below(ST_ONECUT), MEANS[rng.below(10)]);
    std::vector<size_t> c0;   // the other stream goes in one piece
    if (req_side) skeleton_ops(rng, cp, 0, c1, c0, p.ops); else skeleton_ops(rng, cp, 0, c0, c1, p.ops);
}

// ---- layers and bombs: Content-Encoding lists against the configured layer limits, highly compressible nested bodies against
//      small bomb limits. libhtp undoes the codings in the order listed, so the first token is the outermost coding here.
static void c07_layers_plan(Rng &rng, Plan &p) {
    p.prop = "C07"; p.scenario = "layers";
    wellformed_cfg(rng, p.cfg);
    p.cfg.set("res_decomp", 1); p.cfg.set("clock_step", 1);
    if (rng.chance(1, 4)) { static const long GB[] = {256, 1024, 8191}; p.cfg.set("gzip_buf", GB[rng.below(3)]); }
    static const long L[] = {0, 1, 2, 3, 5}; long lim = L[rng.below(5)];
    static const long LZ[] = {0, 1, 1, 2, 3}; long lzlim = LZ[rng.below(5)];
    p.cfg.set("decomp_layers", lim); p.cfg.set("lzma_layers", lzlim);
    bool bomb = rng.chance(1, 3);
    Bytes payload;
    if (bomb) { static const long BL[] = {1024, 8192, 65536, 1048576}; p.cfg.set("bomb_limit", BL[rng.below(4)]); payload.assign((size_t) rng.range(1 << 20, 12 << 20), rng.coin() ? '\0' : 'A'); }
    else { size_t n = (size_t) rng.range(1, 3000); for (size_t i = 0; i < n; i++) payload.push_back((char) ('a' + rng.below(6))); }
    int k = (int) rng.range(2, bomb ? 3 : 5);
    std::vector<std::string> toks; std::vector<Bytes> stages;   // stages[d] = what is left after undoing the first d codings; stages[k] = payload
    for (int i = 0; i < k; i++) { int t = (int) rng.below(bomb ? 2 : 3); toks.push_back(t == 0 ? "gzip" : t == 1 ? "deflate" : "lzma"); }
    stages.resize((size_t) k + 1); stages[(size_t) k] = payload;
    for (int i = k - 1; i >= 0; i--) {
        const Bytes &in = stages[(size_t) i + 1];
        stages[(size_t) i] = toks[(size_t) i] == "gzip" ? z_encode(in, 31, 6, 0) : toks[(size_t) i] == "deflate" ? z_encode(in, -15, 6, 0) : lzma_alone_encode(in, 1u << 16);
    }
    std::string ce; for (int i = 0; i < k; i++) { if (i) ce += rng.coin() ? ", " : ","; ce += toks[(size_t) i]; }
    p.cfg.set("c07_layers_k", k); p.cfg.set("c07_bomb", bomb ? 1 : 0);
    int nlz = 0; std::string lzmask; for (int i = 0; i < k; i++) { lzmask.push_back(toks[(size_t) i] == "lzma" ? '1' : '0'); if (toks[(size_t) i] == "lzma") nlz++; }
    p.extra["c07.lzmask"] = lzmask;
    if (!bomb) for (int d = 0; d <= k; d++) p.extra[strfmt("c07.stage.%d", d)] = stages[(size_t) d];
    else { p.extra["c07.payload_len"] = strfmt("%zu", payload.size()); p.extra["c07.payload_byte"] = payload.substr(0, 1); }
    Script s; MsgSpec q; q.method = "GET"; q.target = "/id0/c07l"; { HeaderSpec h; h.name = "Host"; h.value = "c07.example"; q.headers.push_back(h); }
    MsgSpec r; r.is_request = false; r.status = 200; r.reason = "OK";
    { HeaderSpec h; h.name = "Content-Encoding"; h.value = ce; r.headers.push_back(h); }
    r.body = stages[0]; r.payload = payload; r.framing = rng.coin() ? FR_CL : FR_CLOSE;
    if (r.framing == FR_CL) { HeaderSpec h; h.name = "Content-Length"; h.value = strfmt("%zu", r.body.size()); r.headers.push_back(h); }
    s.req.push_back(q); s.res.push_back(r);
    p.conns.resize(1); build_conn_from_script(rng, s, p.conns[0], false);
    ConnPlan &cp = p.conns[0];
    std::vector<Extent> m0, m1; for (auto &x : cp.xchg) { m0.push_back(x.req); m1.push_back(x.res); }
    static const size_t MEANS[] = {1, 3, 8, 64, 512, 4096};
    std::vector<size_t> c0, c1 = choose_cuts(rng, cp.stream[1], m1, rng.coin() ? ST_UNIFORM : ST_WHOLE, MEANS[rng.below(6)]);
    skeleton_ops(rng, cp, 0, c0, c1, p.ops);
}

static bool check_c07_layers(const Plan &p, const RunResult &r, std::string &oracle, std::string &detail, Agg *agg) {
    if (r.txs.empty()) return true;
    const TxRec &t = r.txs[0];
    long lim = p.cfg.get("decomp_layers", 2), lzlim = p.cfg.get("lzma_layers", 1), k = p.cfg.get("c07_layers_k", 0);
    if (p.cfg.get("c07_bomb", 0)) { if (agg) agg->inc("c07.bomb_runs"); return true; }   // bombs: only the online bound invariants (already evaluated)
    // which stage was delivered? (the body after undoing the first d codings)
    long d = -1; for (long i = 0; i <= k; i++) { auto it = p.extra.find(strfmt("c07.stage.%ld", i)); if (it != p.extra.end() && it->second == t.body[1]) { d = i; break; } }
    if (agg) agg->inc(strfmt("c07.layers_undone.%ld", d));
    if (d < 0) {
        if (t.decomp_restart_lost_input) { std::string site = t.decomp_restart_prior > 13 ? "decomp.restart.prior_input_beyond_keepback" : "decomp.restart.prior_input"; if (g_known_sites.count(site)) { if (agg) agg->inc("known_hit." + site); return true; } }
        // delivered bytes are no stage of the encoding stack: data was lost or invented (unless a decoder gave up part-way, which delivers a prefix of a stage + raw remainder: not asserted)
        return true;
    }
    const Bytes &lzmask = p.extra.at("c07.lzmask"); long nlz = 0; for (long i = 0; i < d && i < (long) lzmask.size(); i++) if (lzmask[(size_t) i] == '1') nlz++;
    if (lim > 0 && d > lim) { oracle = "C07.more_layers_undone_than_configured"; detail = strfmt("%ld codings undone, response_decompression_layer_limit=%ld", d, lim); return false; }
    if (nlz > lzlim) { oracle = "C07.more_lzma_layers_undone_than_configured"; detail = strfmt("%ld lzma codings undone, lzma layer limit=%ld", nlz, lzlim); return false; }
    return true;
}

static bool check_c07(const Plan &p, const RunResult &r, std::string &oracle, std::string &detail, Agg *agg) {
    const ConnPlan &cp = p.conns[0];
    std::string cname = C07_CODINGS[p.cfg.get("c07_coding", 0) % C07_NCOD];
    for (auto &ch : cname) if (ch == ',') ch = '+';
    if (r.conns[0].txs.size() != cp.xchg.size()) { oracle = "C07.tx_count." + cname; detail = strfmt("%zu exchanges, %zu transactions", cp.xchg.size(), r.conns[0].txs.size()); return false; }
    const TxRec *t = tx_of_exchange(r, 0, 0);
    const int sd = (int) p.cfg.get("c07_side", 1);
    if (sd == 0) cname += ".request";
    const Bytes *body = expect_get(cp.xchg[0], sd ? "@body.res" : "@body.req");
    if (!t || !body) return true;
    // with a small bomb limit containment may cut a body short, but only one that is beyond max(limit, 2048 x compressed bytes);
    // below that the body is owed in full (the compressed length is the length of the coded body the actor sent)
    if (p.cfg.has("bomb_limit")) {
        const Extent &e = sd ? cp.xchg[0].res : cp.xchg[0].req; long head_end = sd ? cp.xchg[0].res_head_end : cp.xchg[0].req_head_end;
        int64_t wire = std::max<long>(0, e.b - head_end);
        if ((int64_t) body->size() > std::max<int64_t>(p.cfg.get("bomb_limit", 0), 2048 * (wire > 64 ? wire / 2 : 0))) { if (agg) agg->inc("c07.beyond_bomb_limit_not_compared"); return true; }
    }
    if (t->body[sd] != *body) {
        size_t k = 0; while (k < body->size() && k < t->body[sd].size() && (*body)[k] == t->body[sd][k]) k++;
        if (t->decomp_restart_lost_input) {
            // attributed by call site: the restart path re-feeds only the current chunk. Two sites: what earlier calls had given to
            // inflate fits the 13 bytes the library keeps back for this case (repaired, F39: never exempt), or it is more (K07)
            std::string site = t->decomp_restart_prior > 13 ? "decomp.restart.prior_input_beyond_keepback" : "decomp.restart.prior_input";
            if (g_known_sites.count(site)) { if (agg) agg->inc("known_hit." + site); return true; }
            oracle = "C07.payload_mismatch@" + site;
        } else oracle = "C07.payload_mismatch." + cname;
        detail = strfmt("payload %zu bytes, delivered %zu bytes, first difference at %zu (%s)", body->size(), t->body[sd].size(), k, cname.c_str());
        return false;
    }
    if (t->n_complete[1] != 1) { oracle = "C07.response_not_complete." + cname; detail = "response did not complete after close"; return false; }
    return true;
}

// ================================================================================================
// Scenario: C15 urlencoded (direct streaming API, every single cut; and through the connection parser)
// ================================================================================================

static int ref_x2c(unsigned char a, unsigned char b) {
    int d = (a >= 'A' ? ((a & 0xdf) - 'A') + 10 : (a - '0')); d *= 16; d += (b >= 'A' ? ((b & 0xdf) - 'A') + 10 : (b - '0')); return d & 0xff;
}
// %uHHHH (documented in htp_config.h: IIS-style escapes, decoded only when switched on): a code point below 0x100 is its low
// byte, anything else goes through the configured best-fit map, unlisted code points give the replacement byte
static int ref_udecode(const Bytes &s, size_t at) {
    int c1 = ref_x2c((unsigned char) s[at], (unsigned char) s[at + 1]), c2 = ref_x2c((unsigned char) s[at + 2], (unsigned char) s[at + 3]);
    if (c1 == 0) return c2;
    for (const unsigned char *m = SIM_BESTFIT; m[0] || m[1]; m += 3) if (m[0] == c1 && m[1] == c2) return m[2];
    return SIM_BESTFIT_DEFAULT;
}
// the decoding half of the reference rule, per configuration
static Bytes ref_urldecode(const Bytes &s, const Cfg &c) {
    long inv = c.get("url_invalid", 0), plus = c.get("plusspace", 1), net = c.get("nul_enc_term", 0), nrt = c.get("nul_raw_term", 0), ud = c.get("u_decode", 0);
    Bytes o; size_t n = s.size(), i = 0;
    while (i < n) {
        unsigned char ch = (unsigned char) s[i];
        if (ch == '%') {
            int v = '%';
            if (ud && i + 2 < n && (s[i + 1] == 'u' || s[i + 1] == 'U')) {
                bool hex4 = i + 5 < n && isxdigit((unsigned char) s[i + 2]) && isxdigit((unsigned char) s[i + 3]) && isxdigit((unsigned char) s[i + 4]) && isxdigit((unsigned char) s[i + 5]);
                if (hex4 || (i + 5 < n && inv == 2)) { v = ref_udecode(s, i + 2); i += 6; }   // (2 = "process invalid": decode whatever is there)
                else if (inv == 1) { i++; continue; }
                else i++;
            } else if (i + 2 < n) {
                if (isxdigit((unsigned char) s[i + 1]) && isxdigit((unsigned char) s[i + 2])) { v = ref_x2c((unsigned char) s[i + 1], (unsigned char) s[i + 2]); i += 3; }
                else if (inv == 1) { i++; continue; }
                else if (inv == 0) { i++; }
                else { v = ref_x2c((unsigned char) s[i + 1], (unsigned char) s[i + 2]); i += 3; }
            } else { if (inv == 1) { i++; continue; } i++; }
            if (v == 0 && net) return o;
            o.push_back((char) v);
        } else if (ch == '+') { o.push_back(plus ? ' ' : '+'); i++; }
        else { if (ch == 0 && nrt) return o; o.push_back((char) ch); i++; }
    }
    return o;
}
// split on '&', each piece at its first '=', drop only a final empty piece, decode name and value
static Dump ref_urlencoded(const Bytes &in, const Cfg &c) {
    std::vector<std::pair<Bytes, Bytes>> pairs;
    std::vector<Bytes> pieces; size_t a = 0;
    for (size_t i = 0; i <= in.size(); i++) if (i == in.size() || in[i] == '&') { pieces.push_back(in.substr(a, i - a)); a = i + 1; }
    if (!pieces.empty() && pieces.back().empty()) pieces.pop_back();
    for (auto &pc : pieces) { size_t e = pc.find('='); if (e == std::string::npos) pairs.push_back(std::make_pair(pc, Bytes())); else pairs.push_back(std::make_pair(pc.substr(0, e), pc.substr(e + 1))); }
    Dump d; d.push_back(std::make_pair("count", strfmt("%zu", pairs.size())));
    for (size_t i = 0; i < pairs.size(); i++) { d.push_back(std::make_pair(strfmt("%zu.name", i), ref_urldecode(pairs[i].first, c))); d.push_back(std::make_pair(strfmt("%zu.value", i), ref_urldecode(pairs[i].second, c))); }
    return d;
}

static void c15_plan(Rng &rng, Plan &p) {
    p.prop = "C15";
    p.cfg.set("wellformed", 1);
    if (rng.coin()) p.cfg.set("url_invalid", (long) rng.below(3));
    if (rng.coin()) p.cfg.set("plusspace", (long) rng.below(2));
    if (rng.chance(1, 4)) p.cfg.set("nul_enc_term", 1);
    if (rng.chance(1, 4)) p.cfg.set("nul_raw_term", 1);
    bool udec = rng.chance(1, 4);
    if (udec) { p.cfg.set("u_decode", 1); p.cfg.set("u_map", 1); }   // %uHHHH escapes, with a best-fit map the reference knows
    Bytes in;
    int kind = (int) rng.below(4);
    if (kind < 3) {
        static const char ALPHA[] = {'a', '=', '&', '%', '+', '1', 0, 'b', 'f', 'u', 'G', ' ', '0'};
        size_t n = (size_t) rng.range(0, kind == 0 ? 8 : 64);
        for (size_t i = 0; i < n; i++) in.push_back(ALPHA[rng.below(sizeof ALPHA)]);
    } else { size_t n = (size_t) rng.range(65, 2000); for (size_t i = 0; i < n; i++) in.push_back(rng.chance(1, 6) ? "=&%+"[rng.below(4)] : (char) rng.below(256)); }
    if (udec || rng.chance(1, 8)) {   // (also with the switch off: then they are ordinary, mostly invalid, escapes)
        static const char *U[] = {"%u0041", "%U0062", "%u0141", "%uFF21", "%uab10", "%u1fff", "%u00", "%u0g41", "%u1234", "%u0000", "%u", "%u002B", "%u0026", "%u003d", "%uffff"};
        int k = (int) rng.range(1, 3); for (int j = 0; j < k; j++) in.insert((size_t) rng.below(in.size() + 1), U[rng.below(sizeof U / sizeof *U)]);
    }
    if (rng.chance(1, 5)) {
        // through the connection parser: POST body, Content-Length framing, random wire
        p.scenario = "connp";
        p.cfg.set("urlenc", 1); p.cfg.set("personality", (long) rng.below(10));
        Script s; MsgSpec q; q.method = "POST"; q.target = "/id0/c15"; { HeaderSpec h; h.name = "Host"; h.value = "c15.example"; q.headers.push_back(h); }
        { HeaderSpec h; h.name = "Content-Type"; h.value = "application/x-www-form-urlencoded"; q.headers.push_back(h); }
        { HeaderSpec h; h.name = "Content-Length"; h.value = strfmt("%zu", in.size()); q.headers.push_back(h); }
        q.framing = FR_CL; q.body = q.payload = in;
        MsgSpec r; r.is_request = false; r.status = 200; r.reason = "OK"; r.framing = FR_CL; { HeaderSpec h; h.name = "Content-Length"; h.value = "0"; r.headers.push_back(h); }
        s.req.push_back(q); s.res.push_back(r);
        p.conns.resize(1); build_conn_from_script(rng, s, p.conns[0], false);
        p.extra["urlenc.input"] = in;
        ConnPlan &cp = p.conns[0];
        std::vector<Extent> m0, m1; for (auto &x : cp.xchg) { m0.push_back(x.req); m1.push_back(x.res); }
        static const size_t MEANS[] = {1, 2, 3, 5, 8, 16, 64};
        auto c0 = choose_cuts(rng, cp.stream[0], m0, (int) rng.below(ST_ONECUT), MEANS[rng.below(7)]);
        std::vector<size_t> c1;
        skeleton_ops(rng, cp, 0, c0, c1, p.ops);
        return;
    }
    p.scenario = "direct";
    p.conns.resize(1); p.conns[0].stream[0] = in;
    // the explicit multi-cut schedule of this plan (every single cut is always tried in addition)
    size_t pos = 0; size_t mean = (size_t) rng.range(1, 9);
    while (pos < in.size()) { size_t n = std::min(in.size() - pos, rng.geom(mean)); Op op; op.kind = 'Q'; op.n = (long) n; p.ops.push_back(op); pos += n; }
}

static bool dumps_equal(const Dump &a, const Dump &b, std::string &key) {
    std::string d = dump_first_diff(a, b, false); key = d; return d.empty();
}

static void eval_c15(const Plan &p, Verdict &v, Agg *agg) {
    if (p.scenario.compare(0, 5, "connp") == 0) {
        RunResult r; execute_plan(p, r); v.executions++; v.sig = r.behaviour_sig; v.hash = r.hash; v.nontrivial = r.st.tx_completed >= 1 && r.st.cuts > 0; if (agg) agg->add_run(r);
        for (auto &x : r.viol) if (x.prop == "C01") { v.violated = true; v.oracle = "C15.via." + x.oracle; v.detail = x.detail; return; }
        auto it = p.extra.find("urlenc.input"); if (it == p.extra.end() || r.txs.empty()) return;
        if (p.cfg.get("u_decode", 0) && !p.cfg.get("u_map", 0)) return;   // (the library's default best-fit table is not modelled)
        Dump ref = ref_urlencoded(it->second, p.cfg);
        // body parameters of the transaction, in order
        const TxRec &t = r.txs[0]; Dump got; size_t k = 0;
        for (size_t i = 0;; i++) {
            const Bytes *src = dump_get(t.dump, strfmt("req.param.%zu.source", i)); if (!src) break;
            if (*src != "3") continue;
            got.push_back(std::make_pair(strfmt("%zu.name", k), *dump_get(t.dump, strfmt("req.param.%zu.name", i)))); got.push_back(std::make_pair(strfmt("%zu.value", k), *dump_get(t.dump, strfmt("req.param.%zu.value", i)))); k++;
        }
        got.insert(got.begin(), std::make_pair(std::string("count"), strfmt("%zu", k)));
        std::string key; if (!dumps_equal(ref, got, key)) { for (auto &ch : key) if (isdigit((unsigned char) ch)) ch = 'N'; v.violated = true; v.oracle = "C15.connp_vs_reference." + key; v.detail = strfmt("input '%s'", esc_encode(it->second.substr(0, 120)).c_str()); }
        return;
    }
    const Bytes &in = p.conns[0].stream[0];
    std::vector<Violation> viol; Dump whole, var;
    std::vector<size_t> one; one.push_back(in.size());
    run_urlenp_direct(p.cfg, in, one, whole, viol); v.executions++;
    Fnv sig; for (auto &kv : whole) { sig.str(kv.first); sig.str(kv.second); } v.sig = sig.h; v.hash = sig.h; v.nontrivial = in.size() > 1;
    auto fail = [&](const std::string &o, const std::string &d) { v.violated = true; v.oracle = o; v.detail = d; };
    if (!viol.empty()) { fail(viol[0].oracle, viol[0].detail); return; }
    if (!p.cfg.get("u_decode", 0) || p.cfg.get("u_map", 0)) {
        Dump ref = ref_urlencoded(in, p.cfg); Dump w2 = whole; if (!w2.empty() && w2.back().first == "flags") w2.pop_back();
        std::string key; if (!dumps_equal(ref, w2, key)) { for (auto &ch : key) if (isdigit((unsigned char) ch)) ch = 'N'; fail("C15.whole_vs_reference." + key, strfmt("input '%s'", esc_encode(in.substr(0, 120)).c_str())); return; }
    }
    // every single cut (exhaustive for this string)
    size_t limit = in.size() <= 80 ? in.size() : 0;
    std::vector<size_t> cuts; for (size_t c = 1; c < limit; c++) cuts.push_back(c);
    if (!limit && in.size() > 1) { Rng r(p.seed ^ 0x5151); for (int i = 0; i < 24; i++) cuts.push_back(1 + (size_t) r.below(in.size() - 1)); }
    for (size_t c : cuts) {
        std::vector<size_t> ch; ch.push_back(c);
        run_urlenp_direct(p.cfg, in, ch, var, viol); v.executions++;
        if (!viol.empty()) { fail(viol[0].oracle, viol[0].detail); return; }
        std::string key; if (!dumps_equal(whole, var, key)) { for (auto &chh : key) if (isdigit((unsigned char) chh)) chh = 'N'; fail("C15.single_cut_changes_result." + key, strfmt("cut at %zu of '%s'", c, esc_encode(in.substr(0, 120)).c_str())); return; }
        if (agg) agg->inc("cuts");
    }
    std::vector<size_t> ch; for (auto &op : p.ops) ch.push_back((size_t) op.n);
    if (ch.size() > 1) {
        run_urlenp_direct(p.cfg, in, ch, var, viol); v.executions++;
        if (!viol.empty()) { fail(viol[0].oracle, viol[0].detail); return; }
        std::string key; if (!dumps_equal(whole, var, key)) { for (auto &chh : key) if (isdigit((unsigned char) chh)) chh = 'N'; fail("C15.multi_cut_changes_result." + key, strfmt("%zu chunks of '%s'", ch.size(), esc_encode(in.substr(0, 120)).c_str())); return; }
        if (agg) agg->inc("cuts", ch.size() - 1);
    }
    if (agg) { agg->executions += (uint64_t) v.executions; agg->inc("c15.direct_strings"); }
}

// ================================================================================================
// Scenario: C14 multipart (direct streaming API with every single cut; and through the connection parser)
// ================================================================================================

struct PartSpec { Bytes name, filename, ctype, content; bool is_file = false; };

static Bytes quote_cd(const Bytes &s) { Bytes o; for (char c : s) { if (c == '"' || c == '\\') o.push_back('\\'); o.push_back(c); } return o; }

static void c14_build(Rng &rng, Bytes &content_type, Bytes &body, std::vector<PartSpec> &parts, bool &lf_only) {
    static const char BCH[] = "abcdefghijklmnopqrstuvwxyzABCDEFGHIJKLMNOPQRSTUVWXYZ0123456789-";
    std::string boundary;
    switch (rng.below(6)) {
        case 0: boundary = "a"; break;
        case 1: boundary = "--"; break;
        case 2: boundary = "boundary"; break;
        case 3: boundary = "---------------------------41184676334"; break;
        case 4: boundary = "abab"; break;   // a prefix of itself repeated
        default: { size_t n = (size_t) rng.range(1, 70); for (size_t i = 0; i < n; i++) boundary.push_back(BCH[rng.below(sizeof BCH - 1)]); }
    }
    lf_only = rng.chance(1, 8);
    std::string eol = lf_only ? "\n" : "\r\n";
    content_type = "multipart/form-data; boundary=" + boundary;
    // other well-formed spellings of the parameter (RFC 2046 5.1.1 / RFC 7231 3.1.1.1): quoted, no space after ';', parameter name in
    // another case, another parameter first
    switch (rng.below(10)) {
        case 0: content_type = "multipart/form-data; boundary=\"" + boundary + "\""; break;
        case 1: content_type = "multipart/form-data;boundary=" + boundary; break;
        case 2: content_type = "multipart/form-data; Boundary=" + boundary; break;
        case 3: content_type = "multipart/form-data; charset=utf-8; boundary=" + boundary; break;
        case 4: content_type = "Multipart/Form-Data; boundary=" + boundary; break;
        default: break;
    }
    int n = (int) rng.range(0, 8); if (rng.chance(1, 2)) n = (int) rng.range(1, 3);
    parts.clear();
    static const char *NEAR[] = {"\r", "\n", "\r\n", "--", "\r\n--", "\r\n-", "-", "\r\r\n", "\n\r", "\r\n\r\n"};
    for (int i = 0; i < n; i++) {
        PartSpec ps;
        ps.name = "f" + strfmt("%d", i); if (rng.chance(1, 4)) ps.name += "\"q\\x"; if (rng.chance(1, 6)) ps.name += " sp;="; if (rng.chance(1, 8)) ps.name += rng.coin() ? "\\" : "dir\\\\";
        ps.is_file = rng.chance(1, 3);
        if (ps.is_file) { ps.filename = "file" + strfmt("%d", i) + ".bin"; if (rng.chance(1, 4)) ps.filename += "\\\""; if (rng.chance(1, 8)) ps.filename = "C:\\tmp\\" + (rng.coin() ? std::string() : ps.filename + "\\"); if (rng.chance(1, 3)) ps.ctype = rng.coin() ? "application/octet-stream" : "text/plain"; }
        int pieces = (int) rng.range(0, 5);
        for (int k = 0; k < pieces; k++) {
            switch (rng.below(6)) {
                case 0: ps.content += NEAR[rng.below(sizeof NEAR / sizeof *NEAR)]; break;
                case 1: ps.content += "--" + boundary.substr(0, boundary.size() - (boundary.size() > 1 ? 1 : 0)); break;           // boundary minus one char
                case 2: ps.content += "\r\n--" + boundary.substr(0, (size_t) rng.below(boundary.size() + 1)); if (ps.content.size() >= 4 + boundary.size() && ps.content.compare(ps.content.size() - 4 - boundary.size(), std::string::npos, "\r\n--" + boundary) == 0) ps.content += "x"; break;
                case 3: { size_t m = (size_t) rng.range(1, 30); for (size_t j = 0; j < m; j++) ps.content.push_back((char) rng.below(256)); break; }
                case 4: ps.content += "--" + boundary + "x"; break;   // looks like a boundary but is not at a line start... unless preceded by a line end
                default: ps.content += "value" + strfmt("%d", (int) rng.below(100));
            }
        }
        // with LF-only line ends a CR before LF would be ambiguous; the substitute is outside the boundary alphabet and is made
        // before the delimiter check below (substituting afterwards once completed a boundary: "--" + boundary-minus-'r' + CR)
        if (lf_only) { for (auto &ch : ps.content) if (ch == '\r') ch = '_'; }
        // the content must not contain a real delimiter: line end + "--" + boundary
        for (;;) { size_t at = ps.content.find("\n--" + boundary); if (at == std::string::npos) break; ps.content[at + 1] = '+'; }
        if (ps.content.compare(0, 2 + boundary.size(), "--" + boundary) == 0) ps.content[0] = '+';
        parts.push_back(ps);
    }
    body.clear();
    if (rng.chance(1, 5)) body += "preamble text" + eol;
    for (auto &ps : parts) {
        body += "--" + boundary + eol;
        body += "Content-Disposition: form-data; name=\"" + quote_cd(ps.name) + "\"";
        if (ps.is_file) body += "; filename=\"" + quote_cd(ps.filename) + "\"";
        body += eol;
        if (!ps.ctype.empty()) body += "Content-Type: " + ps.ctype + eol;
        body += eol;
        body += ps.content + eol;
    }
    body += "--" + boundary + "--" + eol;
    if (rng.chance(1, 6)) body += "epilogue";
}

static void make_multipart_request(Rng &rng, MsgSpec &q, bool hostile) {
    Bytes ct, body; std::vector<PartSpec> parts; bool lf;
    c14_build(rng, ct, body, parts, lf);
    if (hostile) {
        // not well-formed any more (scenarios without ground truth only): part headers and the boundary parameter in the forms the
        // multipart parser has special code for
        static const char *CD[] = {"Content-Disposition: form-data; name=\"a\"; name=\"b\"", "Content-Disposition: form-data; name=a", "Content-Disposition: form-data; name='a'", "Content-Disposition: attachment",
            "Content-Disposition: form-data; filename=\"x", "Content-Disposition: form-data name=\"a\"", "Content-Disposition: form-data; name=\"a\" x", "Content-Disposition: form-data; =\"a\"",
            "Content-Disposition: form-data; name=\"a\"; filename=\"f\"; filename=\"g\"", "Content-Disposition: form-data; name=\"a\\\"b\"", "Content-Disposition:form-data;name=\"a\"", "Content-Disposition: form-data; name=\"a\";",
            "Content-Disposition: form-data; name=", "Content-Disposition: form-data; name=\"a\"; x=y", "content-disposition: FORM-DATA; NAME=\"a\"", "Content-Disposition: form-data;\tname=\"a\"", "X-Unknown: v",
            "Content-Disposition: form-data; name=\"a\"\r\n continued", "Content-Type: text/plain\r\nContent-Type: text/html", ": novalue", "NoColonLine", "Content-Disposition: form-data; name=\"a\"\r\nContent-Disposition: form-data; name=\"b\""};
        for (int i = 0; i < 3; i++) {
            size_t at = body.find("Content-Disposition:", (size_t) rng.below(body.size() + 1));
            if (at == std::string::npos) break;
            size_t e = body.find('\n', at); if (e == std::string::npos) break;
            size_t end = (e > at && body[e - 1] == '\r') ? e - 1 : e;
            body.replace(at, end - at, CD[rng.below(sizeof CD / sizeof *CD)]);
        }
        if (rng.chance(1, 3)) {
            static const char *CT[] = {"multipart/form-data; boundary='%s'", "multipart/form-data; boundary=\"%s\"", "multipart/form-data; BOUNDARY=%s; boundary=zzz", "multipart/form-data; boundary=%s; charset=utf-8",
                "multipart/form-data; boundary = %s", "multipart/form-data; boundary=%s,x", "multipart/form-data boundary=%s", "MULTIPART/FORM-DATA; boundary=\"%s", "multipart/form-data;boundary=%s", "multipart/form-data; boundary= %s ",
                "multipart/form-data; boundary=%s; boundary=%s", "multipart/mixed; boundary=%s", "multipart/form-data; bound=%s"};
            size_t eq = ct.find("boundary="); std::string b = eq == std::string::npos ? std::string("x") : ct.substr(eq + 9);
            std::string f = CT[rng.below(sizeof CT / sizeof *CT)]; std::string out; for (size_t i = 0; i < f.size(); i++) { if (f[i] == '%' && i + 1 < f.size() && f[i + 1] == 's') { out += b; i++; } else out.push_back(f[i]); }
            ct = out;
        }
    }
    std::vector<HeaderSpec> keep; for (auto &h : q.headers) { std::string ln = lower(h.name); if (ln != "content-length" && ln != "transfer-encoding" && ln != "content-type" && ln != "expect") keep.push_back(h); } q.headers.swap(keep);
    q.method = "POST"; q.trailers.clear(); q.chunk_sizes.clear(); q.chunk_ext.clear(); q.interim.clear();
    { HeaderSpec h; h.name = "Content-Type"; h.value = ct; q.headers.push_back(h); }
    q.body = q.payload = body;
    if (q.version != "HTTP/1.1" || rng.coin()) { q.framing = FR_CL; HeaderSpec h; h.name = "Content-Length"; h.value = strfmt("%zu", body.size()); q.headers.push_back(h); }
    else { q.framing = FR_CHUNKED; HeaderSpec h; h.name = "Transfer-Encoding"; h.value = "chunked"; q.headers.push_back(h); size_t left = body.size(); while (left) { size_t c = std::min<size_t>(left, (size_t) rng.range(1, 300)); q.chunk_sizes.push_back(c); left -= c; } }
}

static void c14_plan(Rng &rng, Plan &p) {
    p.prop = "C14";
    p.cfg.set("wellformed", 1);
    Bytes ct, body; std::vector<PartSpec> parts; bool lf;
    c14_build(rng, ct, body, parts, lf);
    p.extra["mpart.ct"] = ct;
    p.cfg.set("c14_parts", (long) parts.size());
    for (size_t i = 0; i < parts.size(); i++) {
        p.extra[strfmt("mpart.%zu.name", i)] = parts[i].name; p.extra[strfmt("mpart.%zu.content", i)] = parts[i].content;
        p.extra[strfmt("mpart.%zu.isfile", i)] = parts[i].is_file ? "1" : "0";
        if (parts[i].is_file) { p.extra[strfmt("mpart.%zu.filename", i)] = parts[i].filename; p.extra[strfmt("mpart.%zu.ctype", i)] = parts[i].ctype; }
    }
    if (rng.chance(1, 5)) p.cfg.set("extract_files", 1);
    if (rng.chance(1, 4)) {
        p.scenario = "connp";
        p.cfg.set("mpart", 1); p.cfg.set("personality", (long) rng.below(10));
        Script s; MsgSpec q; q.method = "POST"; q.target = "/id0/c14"; { HeaderSpec h; h.name = "Host"; h.value = "c14.example"; q.headers.push_back(h); }
        { HeaderSpec h; h.name = "Content-Type"; h.value = ct; q.headers.push_back(h); }
        q.body = q.payload = body;
        if (rng.coin()) { q.framing = FR_CL; HeaderSpec h; h.name = "Content-Length"; h.value = strfmt("%zu", body.size()); q.headers.push_back(h); }
        else { q.framing = FR_CHUNKED; HeaderSpec h; h.name = "Transfer-Encoding"; h.value = "chunked"; q.headers.push_back(h); size_t left = body.size(); while (left) { size_t c = std::min<size_t>(left, (size_t) rng.range(1, 200)); q.chunk_sizes.push_back(c); left -= c; } }
        MsgSpec r; r.is_request = false; r.status = 200; r.reason = "OK"; r.framing = FR_CL; { HeaderSpec h; h.name = "Content-Length"; h.value = "0"; r.headers.push_back(h); }
        s.req.push_back(q); s.res.push_back(r);
        p.conns.resize(1); build_conn_from_script(rng, s, p.conns[0], false);
        ConnPlan &cp = p.conns[0];
        std::vector<Extent> m0, m1; for (auto &x : cp.xchg) { m0.push_back(x.req); m1.push_back(x.res); }
        static const size_t MEANS[] = {1, 2, 3, 5, 8, 16, 64};
        auto c0 = choose_cuts(rng, cp.stream[0], m0, (int) rng.below(ST_ONECUT), MEANS[rng.below(7)]);
        std::vector<size_t> c1; skeleton_ops(rng, cp, 0, c0, c1, p.ops);
        return;
    }
    p.scenario = "direct";
    p.conns.resize(1); p.conns[0].stream[0] = body;
    size_t pos = 0; size_t mean = (size_t) rng.range(1, 12);
    while (pos < body.size()) { size_t n = std::min(body.size() - pos, rng.geom(mean)); Op op; op.kind = 'Q'; op.n = (long) n; p.ops.push_back(op); pos += n; }
}

// ground truth: the real parts (type TEXT/FILE), in order, are the parts the actor encoded
static bool c14_truth(const Plan &p, const Dump &d, const char *pfx, std::string &oracle, std::string &detail) {
    size_t want = (size_t) p.cfg.get("c14_parts", 0);
    std::string P = pfx;
    const Bytes *cnt = dump_get(d, P + "count"); size_t n = cnt ? (size_t) atol(cnt->c_str()) : 0;
    size_t k = 0;
    for (size_t i = 0; i < n; i++) {
        const Bytes *ty = dump_get(d, P + strfmt("%zu.type", i)); int t = ty ? atoi(ty->c_str()) : 0;
        if (t == 3 || t == 4) continue;   // preamble / epilogue
        if (k >= want) { oracle = "C14.extra_part"; detail = strfmt("part %zu reported beyond the %zu encoded", i, want); return false; }
        auto ex = [&](const std::string &key) -> const Bytes & { static Bytes none; auto it = p.extra.find(strfmt("mpart.%zu.", k) + key); return it == p.extra.end() ? none : it->second; };
        bool isfile = ex("isfile") == "1";
        if (t != (isfile ? 2 : 1)) { oracle = "C14.part_type"; detail = strfmt("part %zu type %d, encoded as %s", k, t, isfile ? "file" : "text"); return false; }
        const Bytes *nm = dump_get(d, P + strfmt("%zu.name", i));
        if (!nm || *nm != ex("name")) { oracle = "C14.part_name"; detail = strfmt("part %zu name '%s' encoded '%s'", k, nm ? esc_encode(*nm).c_str() : "-", esc_encode(ex("name")).c_str()); return false; }
        if (isfile) {
            const Bytes *fn = dump_get(d, P + strfmt("%zu.filename", i)), *fd = dump_get(d, P + strfmt("%zu.filedata", i)), *fl = dump_get(d, P + strfmt("%zu.filelen", i)), *ct = dump_get(d, P + strfmt("%zu.ct", i));
            if (!fn || *fn != ex("filename")) { oracle = "C14.file_name"; detail = strfmt("part %zu", k); return false; }
            if (fd && *fd != ex("content")) { oracle = "C14.file_bytes"; detail = strfmt("part %zu: %zu bytes encoded, %zu delivered", k, ex("content").size(), fd->size()); return false; }
            if (fl && (size_t) atol(fl->c_str()) != ex("content").size()) { oracle = "C14.file_len"; detail = strfmt("part %zu: len %s, encoded %zu", k, fl->c_str(), ex("content").size()); return false; }
            if (!ex("ctype").empty() && (!ct || *ct != ex("ctype"))) { oracle = "C14.part_content_type"; detail = strfmt("part %zu", k); return false; }
            const Bytes *tf = dump_get(d, P + strfmt("%zu.tmpfile", i));
            if (tf && *tf != ex("content")) { oracle = "C14.extracted_file_bytes"; detail = strfmt("part %zu: %zu bytes encoded, %zu in the extracted file", k, ex("content").size(), tf->size()); return false; }
        } else {
            const Bytes *val = dump_get(d, P + strfmt("%zu.value", i));
            bool empty_ok = ex("content").empty() && val && *val == "<null>";   // an empty part may be reported without a value object
            if (!empty_ok && (!val || *val != ex("content"))) { oracle = "C14.part_value"; detail = strfmt("part %zu: encoded '%s' reported '%s'", k, esc_encode(ex("content").substr(0, 60)).c_str(), val ? esc_encode(val->substr(0, 60)).c_str() : "-"); return false; }
        }
        k++;
    }
    if (k != want) { oracle = "C14.part_count"; detail = strfmt("%zu parts encoded, %zu reported", want, k); return false; }
    return true;
}

static void eval_c14(const Plan &p, Verdict &v, Agg *agg) {
    auto fail = [&](const std::string &o, const std::string &d) { v.violated = true; v.oracle = o; v.detail = d; };
    if (p.scenario.compare(0, 5, "connp") == 0) {
        Plan ref = reference_schedule(p);
        RunResult a, b; execute_plan(ref, a); v.executions++; if (agg) agg->add_run(a);
        execute_plan(p, b); v.executions++; v.sig = b.behaviour_sig; v.hash = b.hash; v.nontrivial = b.st.tx_completed >= 1 && b.st.cuts > 0; if (agg) agg->add_run(b);
        for (auto *r : {&a, &b}) for (auto &x : r->viol) if (x.prop == "C01") { fail("C14.via." + x.oracle, x.detail); return; }
        std::string o, d;
        if (!compare_runs_c03(a, b, o, d)) { fail("C14.chunking." + o.substr(4), d); return; }
        if (b.txs.empty()) return;
        const TxRec &t = b.txs[0];
        if (!c14_truth(p, t.dump, "mpart.", o, d)) { fail(o + ".connp", d); return; }
        // text parts become body parameters with the same names and values
        size_t k = 0, want = (size_t) p.cfg.get("c14_parts", 0);
        for (size_t i = 0; i < want; i++) {
            if (p.extra.at(strfmt("mpart.%zu.isfile", i)) == "1") continue;
            const Bytes *nm = nullptr, *val = nullptr;
            for (size_t j = k;; j++) { const Bytes *src = dump_get(t.dump, strfmt("req.param.%zu.source", j)); if (!src) break; const Bytes *ps = dump_get(t.dump, strfmt("req.param.%zu.parser", j)); if (*src == "3" && ps && *ps == "1") { nm = dump_get(t.dump, strfmt("req.param.%zu.name", j)); val = dump_get(t.dump, strfmt("req.param.%zu.value", j)); k = j + 1; break; } }
            const Bytes &wantv = p.extra.at(strfmt("mpart.%zu.content", i));
            bool vok = val && (*val == wantv || (wantv.empty() && *val == "<null>"));
            if (!nm || !vok || *nm != p.extra.at(strfmt("mpart.%zu.name", i))) { fail("C14.text_part_not_a_body_parameter", strfmt("part %zu", i)); return; }
        }
        return;
    }
    const Bytes &body = p.conns[0].stream[0]; const Bytes &ct = p.extra.at("mpart.ct");
    std::vector<Violation> viol; Dump whole, var;
    std::vector<size_t> one; one.push_back(body.size());
    run_mpart_direct(p.cfg, ct, body, one, whole, viol); v.executions++;
    Fnv sig; for (auto &kv : whole) { sig.str(kv.first); sig.str(kv.second); } v.sig = sig.h; v.hash = sig.h; v.nontrivial = p.cfg.get("c14_parts", 0) > 0;
    if (!viol.empty()) { fail(viol[0].oracle, viol[0].detail); return; }
    std::string o, d;
    if (!c14_truth(p, whole, "", o, d)) { fail(o, d); return; }
    size_t limit = body.size() <= 1024 ? body.size() : 0;
    std::vector<size_t> cuts; for (size_t c = 1; c < limit; c++) cuts.push_back(c);
    if (!limit && body.size() > 1) { Rng r(p.seed ^ 0x1414); for (int i = 0; i < 64; i++) cuts.push_back(1 + (size_t) r.below(body.size() - 1)); }
    for (size_t c : cuts) {
        std::vector<size_t> ch; ch.push_back(c);
        run_mpart_direct(p.cfg, ct, body, ch, var, viol); v.executions++;
        if (!viol.empty()) { fail(viol[0].oracle, viol[0].detail); return; }
        std::string key; if (!dumps_equal(whole, var, key)) { const Bytes *x = dump_get(whole, key), *y = dump_get(var, key); for (auto &chh : key) if (isdigit((unsigned char) chh)) chh = 'N'; fail("C14.single_cut_changes_result." + key, strfmt("cut at %zu of %zu: whole='%s' cut='%s'", c, body.size(), x ? esc_encode(x->substr(0, 40)).c_str() : "-", y ? esc_encode(y->substr(0, 40)).c_str() : "-")); return; }
        if (agg) agg->inc("cuts");
    }
    std::vector<size_t> ch; for (auto &op : p.ops) ch.push_back((size_t) op.n);
    if (ch.size() > 1) {
        run_mpart_direct(p.cfg, ct, body, ch, var, viol); v.executions++;
        if (!viol.empty()) { fail(viol[0].oracle, viol[0].detail); return; }
        std::string key; if (!dumps_equal(whole, var, key)) { for (auto &chh : key) if (isdigit((unsigned char) chh)) chh = 'N'; fail("C14.multi_cut_changes_result." + key, strfmt("%zu chunks", ch.size())); return; }
        if (agg) agg->inc("cuts", ch.size() - 1);
    }
    if (agg) { agg->executions += (uint64_t) v.executions; agg->inc("c14.direct_bodies"); }
}

// ================================================================================================
// Scenario: C08 linear work (virtual CPU clock = libhtp basic blocks; plain -O2 build)
// ================================================================================================

static const char *C08_PATTERNS[] = {
    "req_hdr_distinct", "req_hdr_same", "req_hdr_empty_value", "req_hdr_fold", "req_line_spaces", "req_chunk_lines", "req_empty_lines", "req_body_params",
    "req_cookies", "req_multipart_parts", "res_hdr_distinct", "res_hdr_same", "res_hdr_fold", "res_chunk_lines", "res_ce_tokens", "res_empty_lines",
    "pipelined_tx", "res_interim_100", "res_junk_cr", "req_junk_nul", "res_chunk_ext_long", "req_query_params", "res_hdr_lfcr", "req_body_unexpected_lines",
    "res_body_unexpected_lines", "req_multipart_lines", "req_hdr_long_value", "res_hdr_nocolon",
    // folded continuation lines under every kind of pending line x every kind of continuation (request and response side)
    "req_fold.colon.plain", "req_fold.colon.tab", "req_fold.colon.colon", "req_fold.colon.ws", "req_fold.nocolon.plain", "req_fold.nocolon.tab", "req_fold.nocolon.colon", "req_fold.nocolon.ws",
    "req_fold.emptyname.plain", "req_fold.emptyname.colon", "res_fold.colon.plain", "res_fold.colon.tab", "res_fold.colon.colon", "res_fold.colon.ws", "res_fold.nocolon.plain", "res_fold.nocolon.tab",
    "res_fold.nocolon.colon", "res_fold.nocolon.ws", "res_fold.emptyname.plain", "res_fold.emptyname.colon", "res_fold10.nocolon.plain", "res_fold10.colon.colon",
    "req_hdr_nocolon", "req_hdr_nul", "res_hdr_nul", "req_hdr_distinct_case", "res_trailer_same", "req_trailer_same", "res_hdr_cr_only", "req_chunk_ext_lines", "res_status_line_junk_lines"};
static const int C08_NPAT = (int) (sizeof C08_PATTERNS / sizeof *C08_PATTERNS);

// builds the two streams for pattern `pat` with repetition count k
static void c08_streams(const std::string &pat, size_t k, Bytes &rq, Bytes &rs) {
    rq.clear(); rs.clear();
    auto rep = [&](Bytes &o, const char *fmt_with_i, size_t n) { for (size_t i = 0; i < n; i++) o += strfmt(fmt_with_i, (unsigned) i); };
    const char *ok = "HTTP/1.1 200 OK\r\nContent-Length: 0\r\n\r\n";
    if (pat == "req_hdr_distinct") { rq = "GET / HTTP/1.1\r\nHost: a\r\n"; rep(rq, "X-H%u: v\r\n", k); rq += "\r\n"; rs = ok; }
    else if (pat == "req_hdr_same") { rq = "GET / HTTP/1.1\r\nHost: a\r\n"; for (size_t i = 0; i < k; i++) rq += "X-Same: v\r\n"; rq += "\r\n"; rs = ok; }
    else if (pat == "req_hdr_empty_value") { rq = "GET / HTTP/1.1\r\nHost: a\r\n"; for (size_t i = 0; i < k; i++) rq += "X-E:\r\n"; rq += "\r\n"; rs = ok; }
    else if (pat == "req_hdr_fold") { rq = "GET / HTTP/1.1\r\nHost: a\r\nX-F: v\r\n"; for (size_t i = 0; i < k; i++) rq += " c\r\n"; rq += "\r\n"; rs = ok; }
    else if (pat == "req_line_spaces") { rq = "GET "; rq.append(std::min<size_t>(k, 17000), ' '); rq += "/ HTTP/1.1\r\nHost: a\r\n\r\n"; rs = ok; }
    else if (pat == "req_chunk_lines") { rq = "POST / HTTP/1.1\r\nHost: a\r\nTransfer-Encoding: chunked\r\n\r\n"; for (size_t i = 0; i < k; i++) rq += "1\r\na\r\n"; rq += "0\r\n\r\n"; rs = ok; }
    else if (pat == "req_empty_lines") { for (size_t i = 0; i < k; i++) rq += "\r\n"; rq += "GET / HTTP/1.1\r\nHost: a\r\n\r\n"; rs = ok; }
    else if (pat == "req_body_params") { Bytes b; for (size_t i = 0; i < k; i++) b += "&a=b"; rq = strfmt("POST / HTTP/1.1\r\nHost: a\r\nContent-Type: application/x-www-form-urlencoded\r\nContent-Length: %zu\r\n\r\n", b.size()) + b; rs = ok; }
    else if (pat == "req_cookies") { rq = "GET / HTTP/1.1\r\nHost: a\r\nCookie: a=b"; for (size_t i = 0; i < std::min<size_t>(k, 2900); i++) rq += "; c=d"; rq += "\r\n\r\n"; rs = ok; }
    else if (pat == "req_multipart_parts") { Bytes b; for (size_t i = 0; i < k; i++) b += "--B\r\nContent-Disposition: form-data; name=\"a\"\r\n\r\nv\r\n"; b += "--B--\r\n"; rq = strfmt("POST / HTTP/1.1\r\nHost: a\r\nContent-Type: multipart/form-data; boundary=B\r\nContent-Length: %zu\r\n\r\n", b.size()) + b; rs = ok; }
    else if (pat == "req_multipart_lines") { Bytes b = "--B\r\nContent-Disposition: form-data; name=\"a\"\r\n\r\n"; for (size_t i = 0; i < k; i++) b += "\r\n--"; b += "\r\n--B--\r\n"; rq = strfmt("POST / HTTP/1.1\r\nHost: a\r\nContent-Type: multipart/form-data; boundary=B\r\nContent-Length: %zu\r\n\r\n", b.size()) + b; rs = ok; }
    else if (pat == "res_hdr_distinct") { rq = "GET / HTTP/1.1\r\nHost: a\r\n\r\n"; rs = "HTTP/1.1 200 OK\r\nContent-Length: 0\r\n"; rep(rs, "X-H%u: v\r\n", k); rs += "\r\n"; }
    else if (pat == "res_hdr_same") { rq = "GET / HTTP/1.1\r\nHost: a\r\n\r\n"; rs = "HTTP/1.1 200 OK\r\nContent-Length: 0\r\n"; for (size_t i = 0; i < k; i++) rs += "X-Same: v\r\n"; rs += "\r\n"; }
    else if (pat == "res_hdr_fold") { rq = "GET / HTTP/1.1\r\nHost: a\r\n\r\n"; rs = "HTTP/1.1 200 OK\r\nContent-Length: 0\r\nX-F: v\r\n"; for (size_t i = 0; i < k; i++) rs += " c\r\n"; rs += "\r\n"; }
    else if (pat == "res_hdr_lfcr") { rq = "GET / HTTP/1.1\r\nHost: a\r\n\r\n"; rs = "HTTP/1.1 200 OK\r\nContent-Length: 0\r\n"; for (size_t i = 0; i < k; i++) rs += "X-Same: v\n\r"; rs += "\r\n\r\n"; }
    else if (pat == "res_hdr_nocolon") { rq = "GET / HTTP/1.1\r\nHost: a\r\n\r\n"; rs = "HTTP/1.1 200 OK\r\nContent-Length: 0\r\n"; for (size_t i = 0; i < k; i++) rs += "nocolon\r\n"; rs += "\r\n"; }
    else if (pat == "res_chunk_lines") { rq = "GET / HTTP/1.1\r\nHost: a\r\n\r\n"; rs = "HTTP/1.1 200 OK\r\nTransfer-Encoding: chunked\r\n\r\n"; for (size_t i = 0; i < k; i++) rs += "1\r\na\r\n"; rs += "0\r\n\r\n"; }
    else if (pat == "res_chunk_ext_long") { rq = "GET / HTTP/1.1\r\nHost: a\r\n\r\n"; rs = "HTTP/1.1 200 OK\r\nTransfer-Encoding: chunked\r\n\r\n1;"; rs.append(std::min<size_t>(k, 17000), 'x'); rs += "\r\na\r\n0\r\n\r\n"; }
    else if (pat == "res_ce_tokens") { rq = "GET / HTTP/1.1\r\nHost: a\r\n\r\n"; rs = "HTTP/1.1 200 OK\r\nContent-Length: 0\r\nContent-Encoding: gzip"; for (size_t i = 0; i < std::min<size_t>(k, 2500); i++) rs += ", gzip"; rs += "\r\n\r\n"; }
    else if (pat == "res_empty_lines") { rq = "GET / HTTP/1.1\r\nHost: a\r\n\r\n"; for (size_t i = 0; i < k; i++) rs += "\r\n"; rs += ok; }
    else if (pat == "pipelined_tx") { for (size_t i = 0; i < k; i++) { rq += "GET / HTTP/1.1\r\nHost: a\r\n\r\n"; rs += ok; } }
    else if (pat == "res_interim_100") { rq = "GET / HTTP/1.1\r\nHost: a\r\n\r\n"; for (size_t i = 0; i < k; i++) rs += "HTTP/1.1 100 Continue\r\n\r\n"; rs += ok; }
    else if (pat == "res_junk_cr") { rq = "GET / HTTP/1.1\r\nHost: a\r\n\r\n"; rs.append(k, '\r'); rs += ok; }
    else if (pat == "req_junk_nul") { rq.append(std::min<size_t>(k, 17000), '\0'); rq += "\r\nGET / HTTP/1.1\r\nHost: a\r\n\r\n"; rs = ok; }
    else if (pat == "req_query_params") { rq = "GET /?a=b"; for (size_t i = 0; i < std::min<size_t>(k, 4000); i++) rq += "&a=b"; rq += " HTTP/1.1\r\nHost: a\r\n\r\n"; rs = ok; }
    else if (pat == "req_body_unexpected_lines") { rq = "GET / HTTP/1.1\r\nHost: a\r\n\r\n"; for (size_t i = 0; i < k; i++) rq += "zz\r\n"; rs = ok; }
    else if (pat == "res_body_unexpected_lines") { rq = "GET / HTTP/1.1\r\nHost: a\r\n\r\n"; rs = ok; for (size_t i = 0; i < k; i++) rs += "zz\r\n"; }
    else if (pat == "req_hdr_long_value") { rq = "GET / HTTP/1.1\r\nHost: a\r\nX-L: "; rq.append(std::min<size_t>(k, 17000), 'v'); rq += "\r\n\r\n"; rs = ok; }
    else if (pat.compare(0, 8, "req_fold") == 0 || pat.compare(0, 8, "res_fold") == 0) {
        bool res = pat[2] == 's'; bool v10 = pat.compare(0, 10, "res_fold10") == 0;
        size_t d1 = pat.find('.'), d2 = pat.find('.', d1 + 1);
        std::string pend = pat.substr(d1 + 1, d2 - d1 - 1), cont = pat.substr(d2 + 1);
        std::string first = pend == "colon" ? "X-F: v\r\n" : pend == "nocolon" ? "X-Note\r\n" : ": v\r\n";
        std::string unit = cont == "plain" ? " z\r\n" : cont == "tab" ? "\tz\r\n" : cont == "colon" ? " a:b\r\n" : " \t \r\n";
        Bytes block = first; for (size_t i = 0; i < k; i++) block += unit;
        if (res) { rq = "GET / HTTP/1.1\r\nHost: a\r\n\r\n"; rs = std::string(v10 ? "HTTP/1.0" : "HTTP/1.1") + " 200 OK\r\nContent-Length: 0\r\n" + block + "\r\n"; }
        else { rq = "GET / HTTP/1.1\r\nHost: a\r\n" + block + "\r\n"; rs = ok; }
    }
    else if (pat == "req_hdr_nocolon") { rq = "GET / HTTP/1.1\r\nHost: a\r\n"; for (size_t i = 0; i < k; i++) rq += "nocolon\r\n"; rq += "\r\n"; rs = ok; }
    else if (pat == "req_hdr_nul") { rq = "GET / HTTP/1.1\r\nHost: a\r\n"; for (size_t i = 0; i < k; i++) rq += std::string("X-N: a\0b\r\n", 10); rq += "\r\n"; rs = ok; }
    else if (pat == "res_hdr_nul") { rq = "GET / HTTP/1.1\r\nHost: a\r\n\r\n"; rs = "HTTP/1.1 200 OK\r\nContent-Length: 0\r\n"; for (size_t i = 0; i < k; i++) rs += std::string("X-N: a\0b\r\n", 10); rs += "\r\n"; }
    else if (pat == "req_hdr_distinct_case") { rq = "GET / HTTP/1.1\r\nHost: a\r\n"; for (size_t i = 0; i < k; i++) rq += (i & 1) ? "x-same: v\r\n" : "X-SAME: v\r\n"; rq += "\r\n"; rs = ok; }
    else if (pat == "res_trailer_same") { rq = "GET / HTTP/1.1\r\nHost: a\r\n\r\n"; rs = "HTTP/1.1 200 OK\r\nTransfer-Encoding: chunked\r\n\r\n1\r\na\r\n0\r\n"; for (size_t i = 0; i < k; i++) rs += "X-T: v\r\n"; rs += "\r\n"; }
    else if (pat == "req_trailer_same") { rq = "POST / HTTP/1.1\r\nHost: a\r\nTransfer-Encoding: chunked\r\n\r\n1\r\na\r\n0\r\n"; for (size_t i = 0; i < k; i++) rq += "X-T: v\r\n"; rq += "\r\n"; rs = ok; }
    else if (pat == "res_hdr_cr_only") { rq = "GET / HTTP/1.1\r\nHost: a\r\n\r\n"; rs = "HTTP/1.1 200 OK\r\nContent-Length: 0\r\nX-C: "; rs.append(std::min<size_t>(k, 17000), '\r'); rs += "\n\r\n"; }
    else if (pat == "req_chunk_ext_lines") { rq = "POST / HTTP/1.1\r\nHost: a\r\nTransfer-Encoding: chunked\r\n\r\n"; for (size_t i = 0; i < k; i++) rq += "1;e=v\r\na\r\n"; rq += "0\r\n\r\n"; rs = ok; }
    else if (pat == "res_status_line_junk_lines") { rq = "GET / HTTP/1.1\r\nHost: a\r\n\r\n"; for (size_t i = 0; i < k; i++) rs += "zz\r\n"; rs += ok; }
    else { rq = "GET / HTTP/1.1\r\nHost: a\r\n\r\n"; rs = ok; }
}

// Generated pumps: a unit string repeated k times at an insertion site of an otherwise ordinary exchange. The fixed dictionary
// above names the constructs the statement lists; this family covers "repeating any construct" by enumeration of (site x unit).
static const char *C08_UNITS[] = {"a", " ", "\t", ",", ";", "=", "&", "%", "%2", "%u", "%u00", "%41", "+", "/", "/.", "/../", "//", "\\", ":", "\"", "\\\"", "a=b&", "a=b; ", "x, ",
                                  "gzip, ", "chunked, ", "\x80", "\xc0\xaf", "\xef\xbc\x8f", "--", "--B", "-", "(", "<", "[", "a b", "1", "0", "=&", "; ", ", ", "%%", "a=", "&=", "/a/b/..", "/a/./b/../c", "/x/%2e%2e", "a/..;"};
static const int C08_NUNIT = (int) (sizeof C08_UNITS / sizeof *C08_UNITS);
// line units for the sites that repeat whole lines (the line end is the site's)
static const char *C08_LINES[] = {"a: b", " a", "\ta", "a", "a:", ":a", ":", "a b", "a : b", "1", "0", "1;a=b", "-", " ", "", "a: b, c", "a:b:c", "Content-Length: 0", "Host: a", "Cookie: a=b",
                                  "Transfer-Encoding: chunked", "Content-Encoding: gzip", "Connection: close", "a\rb", "\x80: b", "a: \x80", "HTTP/1.1", "HTTP/1.1 100 Continue", "GET", "--B", "--", "Content-Disposition: form-data", "Content-Type: text/plain"};
static const int C08_NLINE = (int) (sizeof C08_LINES / sizeof *C08_LINES);
enum { C08_SITE_REQ_METHOD, C08_SITE_REQ_PATH, C08_SITE_REQ_QUERY, C08_SITE_REQ_PROTO, C08_SITE_REQ_HDR_VALUE, C08_SITE_REQ_HDR_NAME, C08_SITE_REQ_COOKIE, C08_SITE_REQ_AUTH_DIGEST, C08_SITE_REQ_AUTH_BASIC,
       C08_SITE_REQ_CTYPE, C08_SITE_REQ_TE, C08_SITE_REQ_HOST, C08_SITE_REQ_URLENC_BODY, C08_SITE_REQ_MPART_DATA, C08_SITE_REQ_MPART_CD, C08_SITE_RES_REASON, C08_SITE_RES_HDR_VALUE, C08_SITE_RES_CE, C08_SITE_RES_TE,
       C08_SITE_RES_CL, C08_SITE_INLINE_COUNT,
       // line sites
       C08_SITE_REQ_HDR_LINES = C08_SITE_INLINE_COUNT, C08_SITE_REQ_CHUNK_LINES, C08_SITE_REQ_TRAILER_LINES, C08_SITE_REQ_MPART_HDR_LINES, C08_SITE_REQ_MPART_BODY_LINES, C08_SITE_REQ_BEFORE_LINES, C08_SITE_REQ_AFTER_LINES,
       C08_SITE_RES_HDR_LINES, C08_SITE_RES_CHUNK_LINES, C08_SITE_RES_TRAILER_LINES, C08_SITE_RES_BEFORE_LINES, C08_SITE_RES_AFTER_LINES, C08_SITE_RES_INTERIM_HDR_LINES, C08_SITE_COUNT };
static const char *C08_SITE_NAMES[] = {"req_method", "req_path", "req_query", "req_proto", "req_hdr_value", "req_hdr_name", "req_cookie", "req_auth_digest", "req_auth_basic", "req_ctype", "req_te", "req_host",
                                       "req_urlenc_body", "req_mpart_data", "req_mpart_cd", "res_reason", "res_hdr_value", "res_ce", "res_te", "res_cl",
                                       "req_hdr_lines", "req_chunk_lines", "req_trailer_lines", "req_mpart_hdr_lines", "req_mpart_body_lines", "req_before_lines", "req_after_lines",
                                       "res_hdr_lines", "res_chunk_lines", "res_trailer_lines", "res_before_lines", "res_after_lines", "res_interim_hdr_lines"};
static const char *C08_EOLS[] = {"\r\n", "\n", "\r"};

static void c08_rnd_streams(int site, int unit, int eol, size_t k, Bytes &rq, Bytes &rs, int sfx = 0) {
    rq.clear(); rs.clear();
    const Bytes okres = "HTTP/1.1 200 OK\r\nContent-Length: 0\r\n\r\n", okreq = "GET / HTTP/1.1\r\nHost: a\r\n\r\n";
    Bytes pump;
    if (site < C08_SITE_INLINE_COUNT) {
        Bytes u = C08_UNITS[unit % C08_NUNIT];
        // everything that has to fit one line is kept below the default hard field limit (18000): above it the stream fails by design
        bool in_line = site != C08_SITE_REQ_URLENC_BODY && site != C08_SITE_REQ_MPART_DATA;
        size_t n = in_line ? std::min<size_t>(k, 16000 / u.size()) : k;
        for (size_t i = 0; i < n; i++) pump += u;
        if (sfx) pump += "none";   // a run of units *followed by an ordinary token* (a parser may re-scan the run for every token after it)
    } else {
        Bytes u = C08_LINES[unit % C08_NLINE]; u += C08_EOLS[eol % 3];
        for (size_t i = 0; i < k; i++) pump += u;
    }
    auto with_body = [&](const Bytes &head, const Bytes &body) { return head + strfmt("Content-Length: %zu\r\n\r\n", body.size()) + body; };
    switch (site) {
        case C08_SITE_REQ_METHOD: rq = pump + " / HTTP/1.1\r\nHost: a\r\n\r\n"; rs = okres; break;
        case C08_SITE_REQ_PATH: rq = "GET /" + pump + " HTTP/1.1\r\nHost: a\r\n\r\n"; rs = okres; break;
        case C08_SITE_REQ_QUERY: rq = "GET /?" + pump + " HTTP/1.1\r\nHost: a\r\n\r\n"; rs = okres; break;
        case C08_SITE_REQ_PROTO: rq = "GET / HTTP/1.1" + pump + "\r\nHost: a\r\n\r\n"; rs = okres; break;
        case C08_SITE_REQ_HDR_VALUE: rq = "GET / HTTP/1.1\r\nHost: a\r\nX-V: " + pump + "\r\n\r\n"; rs = okres; break;
        case C08_SITE_REQ_HDR_NAME: rq = "GET / HTTP/1.1\r\nHost: a\r\nX" + pump + ": v\r\n\r\n"; rs = okres; break;
        case C08_SITE_REQ_COOKIE: rq = "GET / HTTP/1.1\r\nHost: a\r\nCookie: " + pump + "\r\n\r\n"; rs = okres; break;
        case C08_SITE_REQ_AUTH_DIGEST: rq = "GET / HTTP/1.1\r\nHost: a\r\nAuthorization: Digest username=\"" + pump + "\r\n\r\n"; rs = okres; break;
        case C08_SITE_REQ_AUTH_BASIC: rq = "GET / HTTP/1.1\r\nHost: a\r\nAuthorization: Basic " + pump + "\r\n\r\n"; rs = okres; break;
        case C08_SITE_REQ_CTYPE: rq = with_body("POST / HTTP/1.1\r\nHost: a\r\nContent-Type: multipart/form-data; " + pump + "boundary=B\r\n", "--B\r\nContent-Disposition: form-data; name=\"a\"\r\n\r\nv\r\n--B--\r\n"); rs = okres; break;
        case C08_SITE_REQ_TE: rq = "POST / HTTP/1.1\r\nHost: a\r\nTransfer-Encoding: " + pump + "chunked\r\n\r\n1\r\na\r\n0\r\n\r\n"; rs = okres; break;
        case C08_SITE_REQ_HOST: rq = "GET / HTTP/1.1\r\nHost: a" + pump + "\r\n\r\n"; rs = okres; break;
        case C08_SITE_REQ_URLENC_BODY: rq = with_body("POST / HTTP/1.1\r\nHost: a\r\nContent-Type: application/x-www-form-urlencoded\r\n", pump); rs = okres; break;
        case C08_SITE_REQ_MPART_DATA: rq = with_body("POST / HTTP/1.1\r\nHost: a\r\nContent-Type: multipart/form-data; boundary=B\r\n", "--B\r\nContent-Disposition: form-data; name=\"a\"\r\n\r\n" + pump + "\r\n--B--\r\n"); rs = okres; break;
        case C08_SITE_REQ_MPART_CD: rq = with_body("POST / HTTP/1.1\r\nHost: a\r\nContent-Type: multipart/form-data; boundary=B\r\n", "--B\r\nContent-Disposition: form-data; name=\"a" + pump + "\"\r\n\r\nv\r\n--B--\r\n"); rs = okres; break;
        case C08_SITE_RES_REASON: rq = okreq; rs = "HTTP/1.1 200 " + pump + "\r\nContent-Length: 0\r\n\r\n"; break;
        case C08_SITE_RES_HDR_VALUE: rq = okreq; rs = "HTTP/1.1 200 OK\r\nContent-Length: 0\r\nX-V: " + pump + "\r\n\r\n"; break;
        case C08_SITE_RES_CE: rq = okreq; rs = "HTTP/1.1 200 OK\r\nContent-Length: 3\r\nContent-Encoding: " + pump + "\r\n\r\nabc"; break;
        case C08_SITE_RES_TE: rq = okreq; rs = "HTTP/1.1 200 OK\r\nTransfer-Encoding: " + pump + "chunked\r\n\r\n1\r\na\r\n0\r\n\r\n"; break;
        case C08_SITE_RES_CL: rq = okreq; rs = "HTTP/1.1 200 OK\r\nContent-Length: 0" + pump + "\r\n\r\n"; break;
        case C08_SITE_REQ_HDR_LINES: rq = "GET / HTTP/1.1\r\nHost: a\r\n" + pump + "\r\n"; rs = okres; break;
        case C08_SITE_REQ_CHUNK_LINES: rq = "POST / HTTP/1.1\r\nHost: a\r\nTransfer-Encoding: chunked\r\n\r\n" + pump + "0\r\n\r\n"; rs = okres; break;
        case C08_SITE_REQ_TRAILER_LINES: rq = "POST / HTTP/1.1\r\nHost: a\r\nTransfer-Encoding: chunked\r\n\r\n1\r\na\r\n0\r\n" + pump + "\r\n"; rs = okres; break;
        case C08_SITE_REQ_MPART_HDR_LINES: rq = with_body("POST / HTTP/1.1\r\nHost: a\r\nContent-Type: multipart/form-data; boundary=B\r\n", "--B\r\nContent-Disposition: form-data; name=\"a\"\r\n" + pump + "\r\nv\r\n--B--\r\n"); rs = okres; break;
        case C08_SITE_REQ_MPART_BODY_LINES: rq = with_body("POST / HTTP/1.1\r\nHost: a\r\nContent-Type: multipart/form-data; boundary=B\r\n", "--B\r\nContent-Disposition: form-data; name=\"a\"\r\n\r\n" + pump + "\r\n--B--\r\n"); rs = okres; break;
        case C08_SITE_REQ_BEFORE_LINES: rq = pump + okreq; rs = okres; break;
        case C08_SITE_REQ_AFTER_LINES: rq = okreq + pump; rs = okres; break;
        case C08_SITE_RES_HDR_LINES: rq = okreq; rs = "HTTP/1.1 200 OK\r\nContent-Length: 0\r\n" + pump + "\r\n"; break;
        case C08_SITE_RES_CHUNK_LINES: rq = okreq; rs = "HTTP/1.1 200 OK\r\nTransfer-Encoding: chunked\r\n\r\n" + pump + "0\r\n\r\n"; break;
        case C08_SITE_RES_TRAILER_LINES: rq = okreq; rs = "HTTP/1.1 200 OK\r\nTransfer-Encoding: chunked\r\n\r\n1\r\na\r\n0\r\n" + pump + "\r\n"; break;
        case C08_SITE_RES_BEFORE_LINES: rq = okreq; rs = pump + okres; break;
        case C08_SITE_RES_AFTER_LINES: rq = okreq; rs = okres + pump; break;
        case C08_SITE_RES_INTERIM_HDR_LINES: rq = okreq; rs = "HTTP/1.1 100 Continue\r\n" + pump + "\r\n" + okres; break;
        default: rq = okreq; rs = okres;
    }
}

static std::string c08_pattern_name(const Plan &p) {
    long pat = p.cfg.get("c08_pattern", 0);
    if (pat < C08_NPAT) return C08_PATTERNS[pat];
    long site = p.cfg.get("c08_site", 0) % C08_SITE_COUNT;
    return strfmt("rnd.%s.u%ld%s", C08_SITE_NAMES[site], p.cfg.get("c08_unit", 0), site >= C08_SITE_INLINE_COUNT ? strfmt(".eol%ld", p.cfg.get("c08_eol", 0)).c_str() : (p.cfg.get("c08_sfx", 0) ? ".then_token" : ""));
}

static void c08_plan(Rng &rng, Plan &p, uint64_t variant) {
    p.prop = "C08"; p.scenario = "pump";
    if (variant % 2 == 1) {
        // generated family: the run index enumerates site x unit (x line end) x delivery
        uint64_t v = variant / 2;
        int site = (int) (v % C08_SITE_COUNT); v /= C08_SITE_COUNT;
        int nunit = site < C08_SITE_INLINE_COUNT ? C08_NUNIT : C08_NLINE;
        p.cfg.set("c08_pattern", (long) C08_NPAT); p.cfg.set("c08_site", site); p.cfg.set("c08_unit", (long) (v % (uint64_t) nunit)); v /= (uint64_t) nunit;
        if (site >= C08_SITE_INLINE_COUNT) { p.cfg.set("c08_eol", (long) (v % 3 == 2 ? 2 : v % 3)); v /= 3; }
        else { p.cfg.set("c08_sfx", (long) (v % 2)); v /= 2; }
        p.cfg.set("c08_delivery", (long) (v % 3));
        p.scenario = "pump+generated";
    } else {
    variant /= 2;
    int pat = (int) (variant % C08_NPAT);
    p.cfg.set("c08_pattern", pat);
    p.cfg.set("c08_delivery", (long) ((variant / C08_NPAT) % 3));   // 0 whole, 1 one byte per call, 2 geometric chunks
    }
    p.cfg.set("c08_mean", (long) rng.range(2, 40));
    p.cfg.set("personality", (long) rng.below(10));
    p.cfg.set("log_level", 0);   // the message list is the caller's to drain; it is not part of the work bound
    p.cfg.set("call_budget", 20000000000L);   // the ladder measures growth; the hang verdict of C01 is not wanted here
    p.cfg.set("wellformed", 1);
    p.conns.resize(1);
}

struct C08Point { size_t k; double ticks, work, ratio; double worst_call; size_t bytes; };

static C08Point c08_measure(const Plan &p, size_t k, RunResult &r) {
    std::string pat = c08_pattern_name(p);
    Plan q = p; q.conns.resize(1);
    if (p.cfg.get("c08_pattern", 0) >= C08_NPAT) c08_rnd_streams((int) (p.cfg.get("c08_site", 0) % C08_SITE_COUNT), (int) p.cfg.get("c08_unit", 0), (int) p.cfg.get("c08_eol", 0), k, q.conns[0].stream[0], q.conns[0].stream[1], (int) p.cfg.get("c08_sfx", 0));
    else c08_streams(pat, k, q.conns[0].stream[0], q.conns[0].stream[1]);
    long del = p.cfg.get("c08_delivery", 0);
    Rng rng(p.seed ^ (uint64_t) k);
    for (int d = 0; d < 2; d++) {
        const Bytes &s = q.conns[0].stream[d]; size_t pos = 0;
        while (pos < s.size()) {
            size_t n = del == 0 ? s.size() : del == 1 ? 1 : std::min(s.size() - pos, rng.geom((size_t) p.cfg.get("c08_mean", 8)));
            Op op; op.kind = d ? 'S' : 'Q'; op.n = (long) n; q.ops.push_back(op); pos += n;
        }
    }
    execute_plan(q, r);
    C08Point pt; pt.k = k; pt.ticks = 0; pt.work = 0; pt.worst_call = 0; pt.bytes = q.conns[0].stream[0].size() + q.conns[0].stream[1].size();
    for (auto &c : r.calls) {
        double w = (double) c.len + (double) c.buffered_before + 1.0; pt.ticks += (double) c.ticks; pt.work += w;
        // per call: work may also be proportional to what the current message has brought so far (finalisation of parameters, cookies, parts)
        double pc = (double) c.ticks / (w + (double) c.msg_bytes_before); if (pc > pt.worst_call) pt.worst_call = pc;
    }
    pt.ratio = pt.work > 0 ? pt.ticks / pt.work : 0;
    return pt;
}

static void eval_c08(const Plan &p, Verdict &v, Agg *agg) {
    std::string pat = c08_pattern_name(p);
    long del = p.cfg.get("c08_delivery", 0);
    size_t kmax = del == 1 ? 4096 : 8192;
    if (getenv("VERIF_TIER") && !strcmp(getenv("VERIF_TIER"), "thorough")) kmax *= 2;
    std::vector<C08Point> pts;
    for (size_t k = 64; k <= kmax; k *= 2) {
        RunResult r; C08Point pt = c08_measure(p, k, r); pts.push_back(pt); v.executions++;
        if (agg) agg->add_run(r);
        v.sig = r.behaviour_sig ^ (uint64_t) p.cfg.get("c08_pattern", 0) * 1315423911u; v.hash = r.hash;
        for (auto &x : r.viol) if (x.prop == "C01") { v.violated = true; v.oracle = "C08.via." + x.oracle; v.detail = x.detail; return; }
    }
    v.nontrivial = true;
    std::string trace; for (auto &pt : pts) trace += strfmt(" k=%zu:%.1f", pt.k, pt.ratio);
    // rungs on which the stream did not really grow any more (a unit that has to fit one line is clipped below the hard field
    // limit) are no rungs of the ladder: with them at the top "still growing over the last two doublings" could never be seen
    // for units of four bytes or more (seeded change C08-j was missed for that reason)
    while (pts.size() > 3 && (double) pts.back().bytes < 1.5 * (double) pts[pts.size() - 2].bytes) pts.pop_back();
    const C08Point &lo = pts.front(), &hi = pts.back();
    if (agg) { if (p.cfg.get("c08_pattern", 0) >= C08_NPAT) { agg->inc(std::string("c08.generated.site.") + C08_SITE_NAMES[p.cfg.get("c08_site", 0) % C08_SITE_COUNT]); agg->inc("c08.generated.runs"); } else agg->inc("c08.pattern." + pat); }
    if (getenv("VERIF_C08_TRACE")) printf("C08TRACE %s delivery=%ld%s worst_call=%.0f\n", pat.c_str(), del, trace.c_str(), hi.worst_call);
    // (a) work per allowed unit must not grow along the ladder: quadratic behaviour doubles it at every step (x128 over 7 steps)
    // ... and it must still be growing at the top of the ladder (>= 1.8x over the last two doublings, i.e. cost ~ k^1.4 or worse):
    // a curve that climbs from a small start-up figure and flattens out is a constant per unit, which is what the statement allows
    const C08Point &mid = pts[pts.size() >= 3 ? pts.size() - 3 : 0];
    if (hi.ratio > 3.0 * lo.ratio && hi.ratio > 40.0 && hi.ratio > 1.8 * mid.ratio) { v.violated = true; v.oracle = "C08.superlinear." + pat; v.detail = strfmt("delivery=%ld ticks per unit of allowed work:%s", del, trace.c_str()); return; }
    // (b) no single call may cost more than a constant per byte given or buffered (constants: 8x the maxima measured on the pinned tree)
    double A = 100.0;
    for (auto &pt : pts) if (pt.worst_call > A * 8) { v.violated = true; v.oracle = "C08.call_cost." + pat; v.detail = strfmt("delivery=%ld k=%zu: %.0f ticks per byte given or buffered in one call", del, pt.k, pt.worst_call); return; }
}

// ================================================================================================
// Scenario: C18 allocation failure: for every k, the k-th allocation of the run fails
// ================================================================================================

void (*g_progress_note)(uint64_t sub) = nullptr;   // lets the run loop record which k is being executed (crash attribution)

static void c18_plan(Rng &rng, Plan &p) {
    // corpus entry: a short history that exercises several subsystems at once
    p.prop = "C18"; p.scenario = "allocfail";
    random_cfg(rng, p.cfg, false);
    p.cfg.set("urlenc", 1); p.cfg.set("mpart", 1); p.cfg.set("cookies", 1); p.cfg.set("auth", 1);
    if (rng.coin()) p.cfg.set("extract_files", 1);
    if (rng.coin()) p.cfg.set("req_decomp", 1);
    p.cfg.kv.erase("max_tx");
    p.conns.resize(1);
    ConnPlan &cp = p.conns[0];
    std::vector<Op> ops;
    int src = (int) rng.below(12);
    if (src >= 10) {
        // containers outgrowing their initial capacity (transaction list 16, header table 32, parameter / cookie tables,
        // multipart part list 64, part header table 4, log list, piece builders): the growth allocation itself may fail
        Script s; int kind = (int) rng.below(5);
        auto simple_res = [&]() { MsgSpec r; r.is_request = false; r.status = 200; r.reason = "OK"; r.framing = FR_CL; HeaderSpec h; h.name = "Content-Length"; h.value = "0"; r.headers.push_back(h); return r; };
        auto base_req = [&](const char *m, const std::string &t) { MsgSpec q; q.method = m; q.target = t; q.version = "HTTP/1.1"; HeaderSpec h; h.name = "Host"; h.value = "c18.example"; q.headers.push_back(h); return q; };
        if (kind == 0) { int n = (int) rng.range(17, 36); for (int i = 0; i < n; i++) { s.req.push_back(base_req("GET", strfmt("/id%d/g", i))); s.res.push_back(simple_res()); } }
        else if (kind == 1) {
            MsgSpec q = base_req("GET", "/id0/g"); MsgSpec r = simple_res(); int n = (int) rng.range(33, 70);
            for (int i = 0; i < n; i++) { HeaderSpec h; h.name = strfmt("X-H%d", i); h.value = "v"; q.headers.push_back(h); r.headers.push_back(h); }
            if (rng.coin()) for (int i = 0; i < 20; i++) { HeaderSpec h; h.name = "X-Rep"; h.value = strfmt("v%d", i); q.headers.push_back(h); r.headers.push_back(h); }
            s.req.push_back(q); s.res.push_back(r);
        } else if (kind == 2) {
            std::string qs, ck, body; int n = (int) rng.range(33, 80);
            for (int i = 0; i < n; i++) { qs += strfmt("%sq%d=%d", i ? "&" : "", i, i); ck += strfmt("%sc%d=%d", i ? "; " : "", i, i); body += strfmt("%sb%d=%%4%d", i ? "&" : "", i, i % 10); }
            MsgSpec q = base_req("POST", "/id0/g?" + qs); { HeaderSpec h; h.name = "Cookie"; h.value = ck; q.headers.push_back(h); }
            { HeaderSpec h; h.name = "Content-Type"; h.value = "application/x-www-form-urlencoded"; q.headers.push_back(h); }
            q.body = q.payload = body; q.framing = FR_CL; { HeaderSpec h; h.name = "Content-Length"; h.value = strfmt("%zu", body.size()); q.headers.push_back(h); }
            s.req.push_back(q); s.res.push_back(simple_res());
        } else if (kind == 3) {
            int n = (int) rng.range(65, 80); std::string b = "Xb0undary", body;
            for (int i = 0; i < n; i++) {
                body += "--" + b + "\r\nContent-Disposition: form-data; name=\"p" + strfmt("%d", i) + "\"" + ((i % 5) == 4 ? strfmt("; filename=\"f%d\"", i) : std::string()) + "\r\n";
                if ((i % 7) == 0) body += "Content-Type: text/plain\r\nX-A: 1\r\nX-B: 2\r\nX-C: 3\r\nX-D: 4\r\n";
                body += "\r\nv" + strfmt("%d", i) + "\r\n";
            }
            body += "--" + b + "--\r\n";
            MsgSpec q = base_req("POST", "/id0/g"); { HeaderSpec h; h.name = "Content-Type"; h.value = "multipart/form-data; boundary=" + b; q.headers.push_back(h); }
            q.body = q.payload = body; q.framing = FR_CL; { HeaderSpec h; h.name = "Content-Length"; h.value = strfmt("%zu", body.size()); q.headers.push_back(h); }
            s.req.push_back(q); s.res.push_back(simple_res());
        } else {
            // many log records on one connection (each request draws a few warnings), and long values assembled from pieces
            int n = (int) rng.range(6, 14);
            for (int i = 0; i < n; i++) { MsgSpec q = base_req("GET", strfmt("/id%d/g?x=%%zz", i)); q.headers[0].value = "bad host:x"; { HeaderSpec h; h.name = "Content-Length"; h.value = "abc"; q.headers.push_back(h); } { HeaderSpec h; h.name = "Content-Length"; h.value = "1x"; q.headers.push_back(h); } s.req.push_back(q); MsgSpec r = simple_res(); { HeaderSpec h; h.name = "Content-Length"; h.value = "0"; r.headers.push_back(h); } s.res.push_back(r); }
        }
        build_conn_from_script(rng, s, cp, false);
    }
    else if (src < 3) { conn_from_capture(rng, cp, ops, 0, true); }
    else if (src < 5) { connect_conn(rng, cp, 0); }
    else if (src < 7) {
        // compressed response, two layers or lzma now and then
        Script s; MsgSpec q; q.method = "GET"; q.target = "/id0/c18?a=b&c=%64"; { HeaderSpec h; h.name = "Host"; h.value = "c18.example"; q.headers.push_back(h); }
        { HeaderSpec h; h.name = "Cookie"; h.value = "a=b; c=d"; q.headers.push_back(h); } { HeaderSpec h; h.name = "Authorization"; h.value = rng.coin() ? "Basic dXNlcjpwYXNz" : "Digest username=\"u\""; q.headers.push_back(h); }
        MsgSpec r; r.is_request = false; r.status = 200; r.reason = "OK"; Bytes payload; size_t n = (size_t) rng.range(1, 20000); for (size_t i = 0; i < n; i++) payload.push_back((char) ('a' + rng.below(3)));
        int c = (int) rng.below(4); std::string ce;
        if (c == 0) { r.body = z_encode(payload, 31, 6, 0); ce = "gzip"; } else if (c == 1) { r.body = z_encode(payload, -15, 6, 0); ce = "deflate"; }
        else if (c == 2) { r.body = lzma_alone_encode(payload, 1u << 16); ce = "lzma"; } else { r.body = z_encode(z_encode(payload, 31, 6, 0), 31, 6, 0); ce = "gzip, gzip"; }
        r.payload = payload; { HeaderSpec h; h.name = "Content-Encoding"; h.value = ce; r.headers.push_back(h); } r.framing = FR_CL; { HeaderSpec h; h.name = "Content-Length"; h.value = strfmt("%zu", r.body.size()); r.headers.push_back(h); }
        s.req.push_back(q); s.res.push_back(r); build_conn_from_script(rng, s, cp, false);
    } else if (src < 8) {
        // multipart upload with a file part (file extraction exercises the file layer under memory pressure)
        Script s; MsgSpec q; q.method = "POST"; q.target = "/id0/c18"; q.version = "HTTP/1.1"; { HeaderSpec h; h.name = "Host"; h.value = "c18.example"; q.headers.push_back(h); }
        make_multipart_request(rng, q, rng.coin());   // half of them with the odd part headers / boundary parameters the parser special-cases
        MsgSpec r; r.is_request = false; r.status = 200; r.reason = "OK"; r.framing = FR_CL; { HeaderSpec h; h.name = "Content-Length"; h.value = "0"; r.headers.push_back(h); }
        s.req.push_back(q); s.res.push_back(r); build_conn_from_script(rng, s, cp, false);
    } else { GenFeatures f; f.wild_path = true; f.wild_host = true; f.content_coding = true; Script s = random_script(rng, f, (int) rng.range(1, 5), 0); build_conn_from_script(rng, s, cp, false); }
    for (auto &x : cp.xchg) x.expect.clear();
    if (ops.empty() || rng.coin()) {
        ops.clear();
        std::vector<Extent> m0, m1; for (auto &x : cp.xchg) { m0.push_back(x.req); m1.push_back(x.res); }
        static const size_t MEANS[] = {3, 8, 16, 64, 512, 4096};
        auto c0 = choose_cuts(rng, cp.stream[0], m0, (int) rng.below(ST_ONECUT), MEANS[rng.below(6)]);
        auto c1 = choose_cuts(rng, cp.stream[1], m1, (int) rng.below(ST_ONECUT), MEANS[rng.below(6)]);
        interleave_ops(rng, cp, 0, c0, c1, 60, !cp.xchg.empty(), false, ops);
    }
    if (ops.size() > 400) { // keep histories short: K allocations x K executions is the cost
        std::vector<Extent> m0, m1; for (auto &x : cp.xchg) { m0.push_back(x.req); m1.push_back(x.res); }
        ops.clear(); auto c0 = choose_cuts(rng, cp.stream[0], m0, ST_UNIFORM, 512), c1 = choose_cuts(rng, cp.stream[1], m1, ST_UNIFORM, 512);
        interleave_ops(rng, cp, 0, c0, c1, 60, !cp.xchg.empty(), false, ops);
    }
    p.ops = ops;
    if (rng.chance(1, 6)) { Op op; op.kind = rng.coin() ? 'q' : 's'; op.n = (long) rng.range(1, 50); p.ops.insert(p.ops.begin() + (long) rng.below(p.ops.size() + 1), op); }
    if (rng.chance(1, 4)) { Op op; op.kind = 'C'; p.ops.insert(p.ops.begin() + (long) rng.below(p.ops.size() + 1), op); }
    if (rng.chance(1, 8)) { Op op; op.kind = 'D'; p.ops.insert(p.ops.begin() + (long) rng.below(p.ops.size() + 1), op); }
    if (rng.chance(1, 5)) { CbFault cf; cf.hook = HK_REQUEST_HEADERS; cf.nth = 1; cf.action = CB_REG_TX_HOOKS; p.cbs.push_back(cf); }
    if (rng.chance(1, 8)) p.cfg.set("disposal", (long) rng.range(2, 3));
}

static bool c18_one(const Plan &q, Verdict &v, Agg *agg, RunResult &r) {
    execute_plan(q, r); v.executions++;
    if (agg) agg->add_run(r);
    for (auto &x : r.viol) {
        if (x.prop == "C01" || x.prop == "C18" || x.prop == "C09") {
            // leaks under an injected failure are not promised away by the statement; everything else is
            if (x.oracle == "C01.leak") continue;
            v.violated = true; v.oracle = x.prop == "C18" ? x.oracle : "C18.via." + x.oracle; v.detail = strfmt("k=%ld%s: %s", q.alloc_fail_at, q.alloc_sustained ? " (sustained)" : "", x.detail.c_str());
            return false;
        }
    }
    return true;
}

static void eval_c18(const Plan &p, Verdict &v, Agg *agg) {
    if (p.alloc_fail_at) {   // a concrete (history, k) pair: replay of a violation
        RunResult r; c18_one(p, v, agg, r); v.sig = r.behaviour_sig; v.hash = r.hash; v.nontrivial = r.alloc_failed > 0; return;
    }
    RunResult base; execute_plan(p, base); v.executions++; if (agg) agg->add_run(base);
    uint64_t K = base.total_allocs;
    v.sig = base.behaviour_sig; v.hash = base.hash; v.nontrivial = K > 0;
    bool thorough = getenv("VERIF_TIER") && !strcmp(getenv("VERIF_TIER"), "thorough");
    uint64_t step = 1; if (!thorough && K > 1200) step = (K + 1199) / 1200;
    std::set<uintptr_t> sites;
    // the k values tried: the even grid, plus (quick tier) every allocation that *grows* something - a realloc of a list, table,
    // string or line buffer; those are few, their failure paths differ from a failed fresh allocation (the old block stays
    // valid and owned), and a grid of 1200 points would hit a given one only by luck. At most 500 of them, evenly thinned.
    std::vector<uint64_t> ks; for (uint64_t k = 1; k <= K; k += step) ks.push_back(k);
    if (step > 1) {
        std::vector<uint64_t> g; for (uint64_t k : base.realloc_ks) if (k >= 1 && k <= K && (k - 1) % step != 0) g.push_back(k);
        size_t thin = g.size() > 500 ? (g.size() + 499) / 500 : 1;
        for (size_t i = 0; i < g.size(); i += thin) ks.push_back(g[i]);
        std::sort(ks.begin(), ks.end()); ks.erase(std::unique(ks.begin(), ks.end()), ks.end());
        if (agg) agg->inc("c18.growth_reallocs_enumerated", (g.size() + thin - 1) / thin);
    }
    for (uint64_t k : ks) {
        if (g_progress_note) g_progress_note(k);
        Plan q = p; q.alloc_fail_at = (long) k;
        RunResult r; if (!c18_one(q, v, agg, r)) { if (agg) agg->inc("c18.failing_k"); return; }
        if (r.alloc_failed) { if (agg) agg->inc("c18.k_reached"); sites.insert(r.fail_site); }
        if ((thorough || (k % 7) == 0) && k + 1 <= K) {   // sustained pressure: every allocation from k on fails
            if (g_progress_note) g_progress_note(k | (1ULL << 40));
            q.alloc_sustained = 1; RunResult r2; if (!c18_one(q, v, agg, r2)) return;
            if (agg) agg->inc("c18.sustained_runs");
        }
    }
    if (g_progress_note) g_progress_note(0);
    if (agg) { agg->inc("c18.histories"); agg->inc("c18.allocations_enumerated", ks.size()); for (uintptr_t s : sites) agg->c[strfmt("c18.site.0x%lx", (unsigned long) s)] += 1; }
}

// ================================================================================================
// Scenario: C10 steady state (streaming profile: auto-destroy, logging off, slots recycled with htp_connp_tx_freed)
// ================================================================================================

static void c10_steady_plan(Rng &rng, Plan &p) {
    p.prop = "C10"; p.scenario = "steady";
    p.cfg.set("wellformed", 1);
    p.cfg.set("personality", (long) rng.below(10));
    p.cfg.set("auto_destroy", 1); p.cfg.set("log_level", 0); p.cfg.set("disposal", 3);
    p.cfg.set("cookies", 1); p.cfg.set("auth", 1); p.cfg.set("urlenc", 1); p.cfg.set("mpart", 1);
    bool thorough = getenv("VERIF_TIER") && !strcmp(getenv("VERIF_TIER"), "thorough");
    int n = thorough ? (rng.chance(1, 4) ? 10000 : 3000) : (rng.chance(1, 4) ? 1000 : 300);
    // a small set of exchange templates, repeated cyclically: message sizes are periodic, so must the heap be
    GenFeatures f; f.close_delim = false; f.max_body = 200; f.many_headers = false; f.interim100 = rng.coin();
    int period = (int) rng.range(1, 8);
    Script tmpl = random_script(rng, f, period, 0);
    Script s;
    for (int i = 0; i < n; i++) { s.req.push_back(tmpl.req[(size_t) (i % period)]); s.res.push_back(tmpl.res[(size_t) (i % period)]); }
    p.conns.resize(1);
    build_conn_from_script(rng, s, p.conns[0], false);
    ConnPlan &cp = p.conns[0];
    // bounded run-ahead: groups of g requests, then their g responses (memory legitimately holds the g transactions in flight)
    int g = (int) rng.range(1, 4);
    p.cfg.set("c10_group", g); p.cfg.set("c10_period", period);
    size_t mean = (size_t) rng.range(8, 400);
    auto emit = [&](int d, long a, long b) { long pos = a; while (pos < b) { long len = std::min<long>(b - pos, (long) rng.geom(mean)); Op op; op.kind = d ? 'S' : 'Q'; op.n = len; p.ops.push_back(op); pos += len; } };
    if (rng.chance(1, 3)) {
        // sliding window instead of groups: the client keeps w requests in flight and every response chunk ends *inside* the next
        // response, so neither direction is ever idle between calls (slot recycling and disposal have to work with a transaction
        // in progress on both sides all the time)
        p.scenario = "steady+sliding";
        int w = g + 1; size_t n_x = cp.xchg.size(), qn = 0; long rpos = 0;
        auto send_reqs_upto = [&](size_t k) { while (qn < n_x && qn <= k) { emit(0, cp.xchg[qn].req.a, cp.xchg[qn].req.b); qn++; } };
        for (size_t k = 0; k < n_x; k++) {
            send_reqs_upto(k + (size_t) w);
            long target = cp.xchg[k].res.b;
            if (k + 1 < n_x) { long nl = cp.xchg[k + 1].res.b - cp.xchg[k + 1].res.a; if (nl > 1) target += 1 + (long) rng.below((uint64_t) (nl - 1)); }
            if (target > rpos) { emit(1, rpos, target); rpos = target; }
        }
        p.cfg.set("c10_group", w + 1);
        return;
    }
    for (size_t i = 0; i < cp.xchg.size(); i += (size_t) g) {
        size_t e = std::min(cp.xchg.size(), i + (size_t) g);
        emit(0, cp.xchg[i].req.a, cp.xchg[e - 1].req.b);
        emit(1, cp.xchg[i].res.a, cp.xchg[e - 1].res.b);
    }
}

static bool check_c10_steady(const Plan &p, const RunResult &r, std::string &oracle, std::string &detail) {
    size_t n = r.live_after_tx.size();
    size_t sent = p.conns[0].xchg.size();
    if (n != sent) { oracle = "C10.steady.tx_count"; detail = strfmt("%zu exchanges, %zu TRANSACTION_COMPLETE", sent, n); return false; }
    if (getenv("VERIF_C10_TRACE")) { printf("C10TRACE"); for (size_t i = 0; i < n; i++) printf(" %lld", (long long) r.live_after_tx[i]); printf("\n"); }
    size_t lcm = (size_t) p.cfg.get("c10_period", 1) * (size_t) p.cfg.get("c10_group", 1);
    size_t warm = std::max<size_t>(64, 4 * lcm);
    if (n < warm * 2) return true;
    if (p.scenario.find("sliding") != std::string::npos) {
        // sliding window: which transactions are alive at a completion depends on where the chunk ends fell (one more or less in
        // flight is several KB), so single samples spike. A leak lifts the floor: compare medians of an early and a late window
        // (the last few completions, where the window drains, are left out).
        auto median = [&](size_t a, size_t b) { std::vector<int64_t> v(r.live_after_tx.begin() + (long) a, r.live_after_tx.begin() + (long) b); std::sort(v.begin(), v.end()); return v[v.size() / 2]; };
        size_t q = n / 4, tail = std::min<size_t>(16, n / 16);
        int64_t m1 = median(warm / 2, warm / 2 + q), m2 = median(n - tail - q, n - tail);
        if (m2 > m1 + 4096) { oracle = "C10.steady.heap_grows_with_transactions"; detail = strfmt("median live heap over tx %zu..%zu: %lld bytes; over tx %zu..%zu: %lld bytes", warm / 2, warm / 2 + q, (long long) m1, n - tail - q, n - tail, (long long) m2); return false; }
        if (r.conns[0].final_tx_list_size > 64) { oracle = "C10.steady.transaction_list_grows"; detail = strfmt("list holds %ld slots after %zu transactions", r.conns[0].final_tx_list_size, n); return false; }
        return true;
    }
    int64_t base = 0; for (size_t i = 8; i < warm; i++) base = std::max(base, r.live_after_tx[i]);
    for (size_t i = warm; i < n; i++) if (r.live_after_tx[i] > base + 4096) {
        oracle = "C10.steady.heap_grows_with_transactions"; detail = strfmt("live heap after tx %zu: %lld bytes; maximum over the warm-up (tx 8..%zu): %lld bytes", i, (long long) r.live_after_tx[i], warm, (long long) base); return false;
    }
    if (r.conns[0].final_tx_list_size > 64) { oracle = "C10.steady.transaction_list_grows"; detail = strfmt("list holds %ld slots after %zu transactions", r.conns[0].final_tx_list_size, n); return false; }
    return true;
}

// ================================================================================================
// Scenario: C19 parsers sharing one configuration: call-level interleaving, basic-block pre-emption, ownership
// ================================================================================================

static void c19_plan(Rng &rng, Plan &p) {
    p.prop = "C19";
    random_cfg(rng, p.cfg, false);
    p.cfg.kv.erase("disposal");
    if (rng.coin()) p.cfg.set("req_decomp", 1);
    p.cfg.set("res_decomp", 1);
    // the decoders' limit paths (memory limit, bomb limit) are error paths that run with the shared configuration in hand
    if (rng.chance(1, 3)) { static const long M[] = {1024, 4096, 65536}; p.cfg.set("lzma_memlimit", M[rng.below(3)]); }
    if (rng.chance(1, 4)) { static const long B[] = {2048, 20000, 100000}; p.cfg.set("bomb_limit", B[rng.below(3)]); }
    int nconn = (int) rng.range(2, 8);
    p.conns.resize((size_t) nconn);
    std::vector<std::vector<Op>> per((size_t) nconn);
    GenFeatures f; f.wild_path = true; f.wild_host = true; f.content_coding = true;
    for (int c = 0; c < nconn; c++) {
        ConnPlan &cp = p.conns[(size_t) c];
        int src = (int) rng.below(10);
        if (src < 5) { Script s = random_script(rng, f, (int) rng.range(1, 5), 100 * c); build_conn_from_script(rng, s, cp, false); }
        else if (src < 6) { connect_conn(rng, cp, 100 * c); }
        else if (src < 8) {   // compressed response: decompressor state is per connection
            Script s; MsgSpec q; q.method = "GET"; q.target = strfmt("/id%d/z", 100 * c); { HeaderSpec h; h.name = "Host"; h.value = "c19.example"; q.headers.push_back(h); }
            MsgSpec r; r.is_request = false; r.status = 200; r.reason = "OK"; Bytes payload; size_t n = (size_t) rng.range(1, 30000); for (size_t i = 0; i < n; i++) payload.push_back((char) ('a' + (i + (size_t) c) % 7));
            std::string cename = "gzip";
            switch (rng.below(4)) {
                case 0: r.body = z_encode(payload, 31, 6, 0); break;
                case 1: r.body = z_encode(payload, rng.coin() ? -15 : 15, 6, 0); cename = "deflate"; break;
                default: { static const uint32_t D[] = {4096, 1u << 16, 1u << 20, 1u << 22}; r.body = lzma_alone_encode(payload, D[rng.below(4)]); cename = "lzma"; break; }   // dictionary below / above the memory limit
            }
            r.payload = payload; { HeaderSpec h; h.name = "Content-Encoding"; h.value = cename; r.headers.push_back(h); } r.framing = FR_CL; { HeaderSpec h; h.name = "Content-Length"; h.value = strfmt("%zu", r.body.size()); r.headers.push_back(h); }
            s.req.push_back(q); s.res.push_back(r); build_conn_from_script(rng, s, cp, false);
        } else { std::vector<Op> dummy; conn_from_capture(rng, cp, dummy, c, false); if (rng.chance(1, 3)) mutate_stream(rng, cp.stream[rng.below(2)], 2); }
        for (auto &x : cp.xchg) x.expect.clear();
        std::vector<Extent> m0, m1; for (auto &x : cp.xchg) { m0.push_back(x.req); m1.push_back(x.res); }
        static const size_t MEANS[] = {2, 5, 16, 64, 512};
        auto c0 = choose_cuts(rng, cp.stream[0], m0, (int) rng.below(ST_ONECUT), MEANS[rng.below(5)]);
        auto c1 = choose_cuts(rng, cp.stream[1], m1, (int) rng.below(ST_ONECUT), MEANS[rng.below(5)]);
        interleave_ops(rng, cp, c, c0, c1, 60, !cp.xchg.empty(), false, per[(size_t) c]);
        if (per[(size_t) c].size() > 300) { per[(size_t) c].clear(); c0 = choose_cuts(rng, cp.stream[0], m0, ST_UNIFORM, 512); c1 = choose_cuts(rng, cp.stream[1], m1, ST_UNIFORM, 512); interleave_ops(rng, cp, c, c0, c1, 60, !cp.xchg.empty(), false, per[(size_t) c]); }
    }
    // call-level interleaving of the connections (used when the plan runs on one thread)
    std::vector<size_t> idx((size_t) nconn, 0);
    for (;;) { std::vector<int> live; for (int c = 0; c < nconn; c++) if (idx[(size_t) c] < per[(size_t) c].size()) live.push_back(c); if (live.empty()) break; int c = live[rng.below(live.size())]; p.ops.push_back(per[(size_t) c][idx[(size_t) c]++]); }
    if (rng.chance(2, 3)) {   // one thread per connection under the baton scheduler, pre-emption every ~mean basic blocks
        p.scenario = "threads"; p.threads = nconn; p.sched_seed = (long) (rng.next() & 0x7fffffff);
        static const long M[] = {15, 60, 300, 2000, 20000}; p.sched_mean = M[rng.below(5)];   // a hand-over costs ~20 us of real time
    } else p.scenario = "calls";
}

static Plan solo_plan(const Plan &p, size_t c) {
    Plan q; q.prop = p.prop; q.scenario = "solo"; q.seed = p.seed; q.cfg = p.cfg;
    q.conns.push_back(p.conns[c]);
    for (auto &op : p.ops) if (op.conn == (int) c) { Op o = op; o.conn = 0; q.ops.push_back(o); }
    return q;
}

static void eval_c19(const Plan &p, Verdict &v, Agg *agg) {
    RunResult all; execute_plan(p, all); note_run(all, p, v, agg);
    v.nontrivial = all.st.tx_completed >= 1;
    if (p.threads) v.sig ^= all.sched_hash;
    auto fail = [&](const std::string &o, const std::string &d) { v.violated = true; v.oracle = o; v.detail = d; };
    for (auto &x : all.viol) if (x.prop == "C19") { fail(x.oracle, x.detail); return; }
    for (auto &x : all.viol) if (x.prop == "C01" && x.oracle != "C01.leak") { fail("C19.via." + x.oracle, x.detail); return; }
    if (agg) { agg->inc(p.threads ? "c19.threaded_runs" : "c19.call_interleaved_runs"); agg->inc("fault.sched.switches", all.sched_switches); agg->inc("c19.ownership_checks", all.access_checks); agg->inc("c19.connections", p.conns.size()); }
    // each connection must report exactly what it reports when it runs alone
    for (size_t c = 0; c < p.conns.size(); c++) {
        Plan q = solo_plan(p, c);
        RunResult solo; execute_plan(q, solo); v.executions++; if (agg) agg->add_run(solo);
        const std::vector<int> &ta = all.conns[c].txs, &tb = solo.conns[0].txs;
        if (ta.size() != tb.size()) { fail("C19.isolation.tx_count", strfmt("connection %zu: %zu transactions with the others, %zu alone", c, ta.size(), tb.size())); return; }
        for (size_t i = 0; i < ta.size(); i++) {
            const TxRec &x = all.txs[(size_t) ta[i]], &y = solo.txs[(size_t) tb[i]];
            std::string d = dump_first_diff(y.dump, x.dump, false);
            if (!d.empty()) { std::string k = d; for (auto &ch : k) if (isdigit((unsigned char) ch)) ch = 'N'; fail("C19.isolation." + k, strfmt("connection %zu tx %zu %s differs from the solo run", c, i, d.c_str())); return; }
            if (x.body[0] != y.body[0] || x.body[1] != y.body[1]) { fail("C19.isolation.body", strfmt("connection %zu tx %zu", c, i)); return; }
            if (x.cbseq_full != y.cbseq_full) { fail("C19.isolation.callback_sequence", strfmt("connection %zu tx %zu: with others %s alone %s", c, i, x.cbseq_full.c_str(), y.cbseq_full.c_str())); return; }
        }
    }
}

// ================================================================================================
// Scenario: C11 ambiguity indicators (trigger applied by the actor => flag must be set)
// ================================================================================================

enum { FL_SMUGGLING = 0x100, FL_INVALID_T_E = 0x400, FL_HOST_MISSING = 0x1000, FL_HOST_AMBIGUOUS = 0x2000 };
static const unsigned long long FL_HOSTU_INVALID = 0x2000000ULL, FL_HOSTH_INVALID = 0x4000000ULL, FL_REQUEST_INVALID = 0x100000000ULL, FL_INVALID_C_L = 0x200000000ULL;

static std::string recase(Rng &r, const std::string &s) { std::string o = s; int m = (int) r.below(4); for (auto &c : o) { if (m == 1) c = (char) tolower((unsigned char) c); else if (m == 2) c = (char) toupper((unsigned char) c); else if (m == 3 && r.coin()) c = (char) (isupper((unsigned char) c) ? tolower((unsigned char) c) : toupper((unsigned char) c)); } return o; }

static const char *C11_TRIGGERS[] = {"te_and_cl", "two_cl_same", "two_cl_diff", "folded_cl", "chunked_http10", "cl_empty", "cl_nondigit", "cl_overflow", "te_unsupported",
                                     "host_differs", "port_differs", "host_missing_11", "hosth_invalid_char", "hosth_empty_label", "hosth_bad_port", "hostu_invalid_char", "hostu_bad_port",
                                     "hosth_ipv6_unclosed", "te_and_cl_te_last", "hosth_empty", "hosth_empty_abs_target", "te_list_and_cl", "te_two_lines_and_cl"};
static const int C11_NTRIG = (int) (sizeof C11_TRIGGERS / sizeof *C11_TRIGGERS);

static void c11_plan(Rng &rng, Plan &p, uint64_t variant) {
    p.prop = "C11"; p.scenario = "trigger";
    wellformed_cfg(rng, p.cfg);
    GenFeatures f; f.interim100 = false; f.http10 = false; f.absolute_uri = false; f.max_body = 60; f.head = false;
    int n = (int) rng.range(1, 3);
    Script s = random_script(rng, f, n, 0);
    int trig = (int) ((variant + rng.below(C11_NTRIG)) % C11_NTRIG);
    p.cfg.set("c11_trigger", trig);
    const std::string tname = C11_TRIGGERS[trig];
    bool kills_stream = tname == "cl_empty" || tname == "cl_nondigit" || tname == "cl_overflow" || tname == "te_unsupported";
    int k = kills_stream ? n - 1 : (int) rng.below((uint64_t) n);
    MsgSpec &q = s.req[(size_t) k];
    // strip whatever the base message had in the fields the trigger owns
    { std::vector<HeaderSpec> keep; for (auto &h : q.headers) { std::string ln = lower(h.name); if (ln != "content-length" && ln != "transfer-encoding" && ln != "host" && ln != "expect" && ln != "content-type") keep.push_back(h); } q.headers.swap(keep); }
    q.trailers.clear(); q.chunk_ext.clear(); q.chunk_sizes.clear(); q.interim.clear();
    s.res[(size_t) k].interim.clear();
    q.method = "POST"; q.version = "HTTP/1.1"; q.target = strfmt("/id%d/c11", k);
    Bytes body; { size_t bl = (size_t) rng.range(1, 40); for (size_t i = 0; i < bl; i++) body.push_back((char) ('a' + rng.below(26))); }
    std::string host = "www.example.com";
    unsigned long long must = 0; long te_expect = -1;
    std::vector<HeaderSpec> add;
    auto H = [&](const std::string &name, const Bytes &value) { HeaderSpec h; h.name = recase(rng, name); h.value = value; static const char *OWS[] = {"", " ", "\t", "  "}; h.ows1 = OWS[rng.below(4)]; h.ows2 = rng.chance(1, 4) ? OWS[rng.below(4)] : ""; return h; };
    auto chunked_body = [&]() { q.framing = FR_CHUNKED; q.body = q.payload = body; size_t left = body.size(); while (left) { size_t c = (size_t) rng.range(1, (int64_t) left); q.chunk_sizes.push_back(c); left -= c; } };
    auto cl_body = [&]() { q.framing = FR_CL; q.body = q.payload = body; };
    bool host_hdr = true; Bytes host_value = host;
    if (tname == "te_and_cl" || tname == "te_and_cl_te_last") {
        chunked_body(); HeaderSpec te = H("Transfer-Encoding", recase(rng, "chunked")), cl = H("Content-Length", strfmt("%d", (int) rng.range(0, 500)));
        if (tname == "te_and_cl") { add.push_back(te); add.push_back(cl); } else { add.push_back(cl); add.push_back(te); }
        must = FL_SMUGGLING; te_expect = 3;
    } else if (tname == "te_list_and_cl" || tname == "te_two_lines_and_cl") {
        // chunked as the last element of a list (or of two Transfer-Encoding lines, which are joined): still chunked framing, and with
        // a Content-Length next to it still a smuggling attempt
        static const char *FIRST[] = {"compress", "gzip", "deflate", "identity", "c", "ch", "chunk", "chunkedx", "xchunked", "cchunked", "x-compress", "compress;q=1"};
        std::string first = recase(rng, FIRST[rng.below(sizeof FIRST / sizeof *FIRST)]);
        chunked_body();
        HeaderSpec cl = H("Content-Length", strfmt("%d", (int) rng.range(0, 500)));
        if (tname == "te_list_and_cl") { static const char *SEP[] = {", ", ",", " , ", ",\t"}; add.push_back(H("Transfer-Encoding", first + SEP[rng.below(4)] + recase(rng, "chunked"))); add.push_back(cl); }
        else { add.push_back(H("Transfer-Encoding", first)); add.push_back(H("Transfer-Encoding", recase(rng, "chunked"))); add.push_back(cl); }
        if (rng.coin()) std::swap(add.front(), add.back());   // Content-Length first or last (the two Transfer-Encoding lines keep their order when they are adjacent in add)
        if (tname == "te_two_lines_and_cl" && add.size() == 3 && lower(add[0].name) != "content-length" && lower(add[2].name) != "content-length") std::swap(add[1], add[2]);
        must = FL_SMUGGLING; te_expect = 3;
    } else if (tname == "two_cl_same") { cl_body(); add.push_back(H("Content-Length", strfmt("%zu", body.size()))); add.push_back(H("Content-Length", strfmt("%zu", body.size()))); must = FL_SMUGGLING; }
    else if (tname == "two_cl_diff") { cl_body(); add.push_back(H("Content-Length", strfmt("%zu", body.size()))); add.push_back(H("Content-Length", strfmt("%zu", body.size() + 1 + (size_t) rng.below(9)))); must = FL_SMUGGLING; }
    else if (tname == "folded_cl") { cl_body(); HeaderSpec h = H("Content-Length", ""); h.ows2 = ""; h.folds.push_back((rng.coin() ? " " : "\t") + strfmt("%zu", body.size())); add.push_back(h); must = FL_SMUGGLING; }
    else if (tname == "chunked_http10") { q.version = "HTTP/1.0"; chunked_body(); add.push_back(H("Transfer-Encoding", recase(rng, "chunked"))); must = FL_SMUGGLING; te_expect = 3; }
    else if (tname == "cl_empty") { add.push_back(H("Content-Length", rng.coin() ? "" : " ")); must = FL_REQUEST_INVALID | FL_INVALID_C_L; }
    else if (tname == "cl_nondigit") { static const char *V[] = {"abc", "x", "ten", "--", "?", "length"}; add.push_back(H("Content-Length", V[rng.below(6)])); must = FL_REQUEST_INVALID | FL_INVALID_C_L; }
    else if (tname == "cl_overflow") { static const char *V[] = {"9223372036854775808", "18446744073709551616", "99999999999999999999999", "9223372036854775807000"}; add.push_back(H("Content-Length", V[rng.below(4)])); must = FL_REQUEST_INVALID | FL_INVALID_C_L; }
    else if (tname == "te_unsupported") { static const char *V[] = {"gzip", "identity", "deflate", "compress", "chunke", "xchunked", "chunkedx", "chunked;", "chunked ;", "chunked=", "chunked/", "chunked:1", "chunked\"", "chunked;q=1", "gzip, chunked;", "chunked x", "chunked\x7f"}; add.push_back(H("Transfer-Encoding", recase(rng, V[rng.below(17)]))); must = FL_REQUEST_INVALID | FL_INVALID_T_E; }
    else if (tname == "host_differs") { q.target = "http://" + recase(rng, host) + strfmt("/id%d/c11", k); static const char *O[] = {"evil.example.com", "www.example.org", "example.com", "www.example.com.evil.net", "w.example.com"}; host_value = O[rng.below(5)]; must = FL_HOST_AMBIGUOUS; }
    else if (tname == "port_differs") { int p1 = (int) rng.range(1, 65535), p2 = (int) rng.range(1, 65535); if (p2 == p1) p2 = p1 == 65535 ? 1 : p1 + 1; q.target = "http://" + host + strfmt(":%d/id%d/c11", p1, k); host_value = host + strfmt(":%d", p2); must = FL_HOST_AMBIGUOUS; }
    else if (tname == "host_missing_11") { host_hdr = false; must = FL_HOST_MISSING; }
    else if (tname == "hosth_invalid_char") { static const char *O[] = {"www.exa$mple.com", "www.ex ample.com", "www.example!.com", "ww~w.example.com", "www.example.com/x", "www.exam\"ple.com"}; host_value = O[rng.below(6)]; must = FL_HOSTH_INVALID; }
    else if (tname == "hosth_empty_label") { static const char *O[] = {"www..example.com", ".example.com", "www.example..com", "a...b"}; host_value = O[rng.below(4)]; must = FL_HOSTH_INVALID; }
    else if (tname == "hosth_bad_port") { static const char *O[] = {"www.example.com:99999", "www.example.com:0", "www.example.com:abc", "www.example.com:", "www.example.com:-1", "www.example.com:65536"}; host_value = O[rng.below(6)]; must = FL_HOSTH_INVALID; }
    else if (tname == "hostu_invalid_char") { static const char *O[] = {"www.exa$mple.com", "www.example!.com", "www..example.com", "ww~w.example.com"}; std::string h = O[rng.below(4)]; q.target = "http://" + h + strfmt("/id%d/c11", k); host_value = h; must = FL_HOSTU_INVALID; }
    else if (tname == "hostu_bad_port") { static const char *O[] = {"99999", "0", "65536", "123456789"}; std::string pt = O[rng.below(4)]; q.target = "http://" + host + ":" + pt + strfmt("/id%d/c11", k); host_value = host; must = FL_HOSTU_INVALID; }
    else if (tname == "hosth_empty") { static const char *O[] = {"", " ", "\t", "   "}; host_value = O[rng.below(4)]; must = FL_HOSTH_INVALID; }   // present, but no host in it
    else if (tname == "hosth_empty_abs_target") { static const char *O[] = {"", " ", "  \t"}; q.target = "http://" + recase(rng, host) + strfmt("/id%d/c11", k); host_value = O[rng.below(3)]; must = FL_HOSTH_INVALID | FL_HOST_AMBIGUOUS; }
    else if (tname == "hosth_ipv6_unclosed") { static const char *O[] = {"[::1", "[::1]x", "[fe80::1"}; host_value = O[rng.below(3)]; must = FL_HOSTH_INVALID; }
    if (q.framing == FR_NONE && !kills_stream && q.body.empty()) { /* no body */ }
    if (host_hdr) add.push_back(H("Host", host_value));
    for (auto &h : add) {
        // keep the relative order of the added fields (it matters for te/cl), place them at random among the others
        size_t at = (size_t) rng.below(q.headers.size() + 1);
        static size_t last_at; (void) last_at;
        q.headers.insert(q.headers.begin() + (long) at, h);
    }
    // re-establish the relative order of the trigger's own fields
    if (add.size() >= 2) {
        std::vector<size_t> pos; for (size_t i = 0; i < q.headers.size(); i++) for (auto &h : add) if (q.headers[i].name == h.name && q.headers[i].value == h.value && q.headers[i].folds == h.folds) { pos.push_back(i); break; }
        std::sort(pos.begin(), pos.end()); pos.erase(std::unique(pos.begin(), pos.end()), pos.end());
        if (pos.size() == add.size()) for (size_t i = 0; i < add.size(); i++) q.headers[pos[i]] = add[i];
    }
    // the fields of the trigger behind a long run of other repeated fields: the library caps how many repetitions it merges per
    // message (64), and what is over the cap is dropped - the fields that decide the framing must not be among the dropped
    if (rng.chance(1, 5)) {
        int nrep = (int) rng.range(60, 100); bool two = rng.coin();
        std::vector<HeaderSpec> pad; for (int i = 0; i < nrep; i++) { HeaderSpec h; h.name = (two && (i & 1)) ? "Via" : "X-Forwarded-For"; h.value = strfmt("10.0.0.%d", i % 250); pad.push_back(h); }
        q.headers.insert(q.headers.begin(), pad.begin(), pad.end());
        p.cfg.set("c11_repeat_pad", nrep);
    }
    if (q.framing == FR_NONE) { q.body.clear(); q.payload.clear(); }
    q.xexpect.clear();
    q.xexpect.push_back(std::make_pair("@flags.set", strfmt("%llu", must)));
    if (te_expect >= 0) q.xexpect.push_back(std::make_pair("req.te", strfmt("%ld", te_expect)));
    q.xexpect.push_back(std::make_pair("@c11", tname));
    if (kills_stream) { s.res.resize((size_t) k); }   // the server never answers a request the parser gives up on
    p.conns.resize(1);
    build_conn_from_script(rng, s, p.conns[0], true);
    ConnPlan &cp = p.conns[0];
    std::vector<Extent> m0, m1; for (auto &x : cp.xchg) { m0.push_back(x.req); if (x.res.b > x.res.a) m1.push_back(x.res); }
    static const size_t MEANS[] = {1, 2, 3, 5, 8, 16, 64, 512};
    int s0 = (int) rng.below(ST_ONECUT), s1 = (int) rng.below(ST_ONECUT);
    auto c0 = choose_cuts(rng, cp.stream[0], m0, s0, MEANS[rng.below(8)]);
    auto c1 = choose_cuts(rng, cp.stream[1], m1, s1, MEANS[rng.below(8)]);
    interleave_ops(rng, cp, 0, c0, c1, 50, true, false, p.ops);
}

static bool check_c11(const Plan &p, const RunResult &r, std::string &oracle, std::string &detail, Agg *agg) {
    const ConnPlan &cp = p.conns[0];
    for (size_t i = 0; i < cp.xchg.size(); i++) {
        const Bytes *must = expect_get(cp.xchg[i], "@flags.set");
        if (!must) {
            // untouched base message: evidence only (the statement is one-directional)
            const TxRec *t = tx_of_exchange(r, 0, i);
            if (t && agg) { const Bytes *fl = dump_get(t->dump, "flags"); unsigned long long f = fl ? strtoull(fl->c_str(), 0, 10) : 0; if (f & (FL_SMUGGLING | FL_INVALID_T_E | FL_HOST_AMBIGUOUS | FL_HOSTU_INVALID | FL_HOSTH_INVALID | FL_REQUEST_INVALID | FL_INVALID_C_L)) agg->inc("c11.control_with_flag"); else agg->inc("c11.control_clean"); }
            continue;
        }
        const Bytes *name = expect_get(cp.xchg[i], "@c11");
        std::string tn = name ? *name : "?";
        const TxRec *t = tx_of_exchange(r, 0, i);
        if (!t || !t->have_dump) { oracle = "C11.tx_missing." + tn; detail = strfmt("exchange %zu not reported", i); return false; }
        const Bytes *fl = dump_get(t->dump, "flags");
        unsigned long long f = fl ? strtoull(fl->c_str(), 0, 10) : 0, m = strtoull(must->c_str(), 0, 10);
        if ((f & m) != m) { oracle = "C11.flag_not_set." + tn; detail = strfmt("tx#%zu flags=0x%llx required=0x%llx", i, f, m); return false; }
        const Bytes *te = expect_get(cp.xchg[i], "req.te");
        if (te) { const Bytes *v = dump_get(t->dump, "req.te"); if (!v || *v != *te) { oracle = "C11.not_framed_by_chunked." + tn; detail = strfmt("tx#%zu request_transfer_coding=%s", i, v ? v->c_str() : "-"); return false; } }
        const Bytes *body = expect_get(cp.xchg[i], "@body.req");
        if (body && (te || tn == "two_cl_same" || tn == "two_cl_diff" || tn == "folded_cl") && t->body[0] != *body) { oracle = "C11.body_framing." + tn; detail = strfmt("tx#%zu sent %zu body bytes, delivered %zu", i, body->size(), t->body[0].size()); return false; }
        if (agg) agg->inc("c11.trigger." + tn);
    }
    return true;
}

// ================================================================================================
// C16 material (CONNECT scripts are also mixed into the chaos traffic)
// ================================================================================================

static Bytes tls_like(Rng &r, size_t n) {
    Bytes b = std::string("\x16\x03\x01\x00", 4);   // a TLS record header: contains a NUL early, as real handshakes do
    while (b.size() < n) b.push_back((char) r.below(256));
    return b;
}

// kind: 0 refused/plain HTTP follows, 1 2xx + TLS-looking payload (tunnel), 2 101 upgrade (tunnel), 3 refused and the client
// sends opaque bytes all the same (no tunnel exists: nothing may report TUNNEL); -1 = random
Script connect_script_ex(Rng &r, int id_base, int kind, int &connect_idx, bool &expect_tunnel, Bytes &tunnel_req, Bytes &tunnel_res) {
    GenFeatures f; f.interim100 = false;
    Script s;
    if (kind < 0) kind = r.chance(1, 8) ? 3 : (int) r.below(3);
    int pre = (int) r.range(0, 2);
    if (pre) s = random_script(r, f, pre, id_base);
    for (auto &m : s.res) if (m.framing == FR_CLOSE) { m.framing = FR_CL; HeaderSpec cl; cl.name = "Content-Length"; cl.value = strfmt("%zu", m.body.size()); m.headers.push_back(cl); }
    connect_idx = pre;
    MsgSpec q, p; p.is_request = false;
    expect_tunnel = false;
    if (kind == 2) {
        q.method = "GET"; q.target = strfmt("/id%d/upgrade", id_base + pre); q.version = "HTTP/1.1";
        { HeaderSpec h; h.name = "Host"; h.value = "ws.example"; q.headers.push_back(h); }
        { HeaderSpec h; h.name = "Upgrade"; h.value = "websocket"; q.headers.push_back(h); }
        { HeaderSpec h; h.name = "Connection"; h.value = "Upgrade"; q.headers.push_back(h); }
        p.status = 101; p.reason = "Switching Protocols";
        { HeaderSpec h; h.name = "Upgrade"; h.value = "websocket"; p.headers.push_back(h); }
        { HeaderSpec h; h.name = "X-Sim-Id"; h.value = strfmt("%d", id_base + pre); p.headers.push_back(h); }
        expect_tunnel = true;
    } else {
        q.method = "CONNECT"; q.target = "tunnel.example:443"; q.version = "HTTP/1.1";
        { HeaderSpec h; h.name = "Host"; h.value = "tunnel.example:443"; q.headers.push_back(h); }
        if (r.coin()) { HeaderSpec h; h.name = "Proxy-Connection"; h.value = "keep-alive"; q.headers.push_back(h); }
        q.xexpect.push_back(std::make_pair("@host.ci", Bytes("tunnel.example"))); q.xexpect.push_back(std::make_pair("req.port", Bytes("443")));   // authority-form target
        if (kind == 1) { static const int ST[] = {200, 200, 204, 299}; p.status = ST[r.below(4)]; p.reason = "Connection established"; expect_tunnel = true; }
        else if (kind == 0 && r.chance(1, 3)) { static const int ST[] = {200, 204, 299}; p.status = ST[r.below(3)]; p.reason = "Connection established"; }   // tunnel carrying plain HTTP
        else { static const int ST[] = {407, 403, 502, 400, 500, 302, 300, 301, 399, 599} /* incl. the neighbours of the 2xx range */; p.status = ST[r.below(10)]; p.reason = "Denied"; p.framing = FR_CL; p.body = p.payload = "denied"; HeaderSpec cl; cl.name = "Content-Length"; cl.value = "6"; p.headers.push_back(cl); }
        { HeaderSpec h; h.name = "X-Sim-Id"; h.value = strfmt("%d", id_base + pre); p.headers.push_back(h); }
        // an interim answer before the final one: the request side keeps waiting (nothing beyond the CONNECT head is consumed)
        if (r.chance(1, 6)) p.interim = r.coin() ? Bytes("HTTP/1.1 100 Continue\r\n\r\n") : Bytes("HTTP/1.1 100 Continue\r\nX-Interim: 1\r\n\r\n");
    }
    s.req.push_back(q); s.res.push_back(p);
    tunnel_req.clear(); tunnel_res.clear();
    if (expect_tunnel) {
        if (r.chance(4, 5)) tunnel_req = tls_like(r, (size_t) r.range(5, 300));
        if (!tunnel_req.empty() && r.chance(4, 5)) tunnel_res = tls_like(r, (size_t) r.range(5, 300));
    } else if (kind == 3) {
        tunnel_req = tls_like(r, (size_t) r.range(5, 300));
    } else {
        int post = (int) r.range(0, 3);
        if (post) { Script t = random_script(r, f, post, id_base + pre + 1); for (auto &m : t.req) s.req.push_back(m); for (auto &m : t.res) s.res.push_back(m); }
        // the request side decides "HTTP or not" from the first line after the answer: blanks in front of the method are skipped
        // there and by the request-line parser, so HTTP it is
        // (not in front of HEAD: a personality that counts the blanks as an anomaly keeps them in the method, which is then not
        //  recognised, and the framing of the answer depends on it)
        if (post && p.status >= 200 && p.status <= 299 && s.req[(size_t) pre + 1].method != "HEAD" && r.chance(1, 3)) { static const char *LEAD[] = {" ", "\t", "  ", " \t "}; s.req[(size_t) pre + 1].lead = LEAD[r.below(4)]; }
    }
    return s;
}

Script connect_script(Rng &r, int id_base) {
    int ci; bool tun; Bytes a, b;
    return connect_script_ex(r, id_base, -1, ci, tun, a, b);
}

// for the scenarios without ground truth: all three kinds (refused / tunnelled CONNECT, 101 upgrade), and the tunnel payload is
// really sent (a pseudo exchange: the client's opaque bytes, then the server's)
static Script connect_conn(Rng &rng, ConnPlan &cp, int id_base) {
    int ci; bool tun; Bytes a, b;
    Script s = connect_script_ex(rng, id_base, -1, ci, tun, a, b);
    build_conn_from_script(rng, s, cp, false);
    if (!a.empty() || !b.empty()) {
        Exchange x; x.req.a = (long) cp.stream[0].size(); cp.stream[0] += a; x.req.b = (long) cp.stream[0].size(); x.req_head_end = x.req.b;
        x.res.a = (long) cp.stream[1].size(); cp.stream[1] += b; x.res.b = (long) cp.stream[1].size(); x.res_head_end = x.res.b;
        cp.xchg.push_back(x);
    }
    return s;
}

static void c16_plan(Rng &rng, Plan &p) {
    p.prop = "C16"; p.scenario = "connect";
    wellformed_cfg(rng, p.cfg);
    int ci; bool tun; Bytes treq, tres;
    Script s = connect_script_ex(rng, 0, -1, ci, tun, treq, tres);
    p.conns.resize(1);
    build_conn_from_script(rng, s, p.conns[0], true);
    ConnPlan &cp = p.conns[0];
    p.cfg.set("c16_connect_idx", ci); p.cfg.set("c16_expect_tunnel", tun ? 1 : 0);
    if (!tun && !treq.empty()) {
        // refused, and the client sends its opaque bytes all the same (it did not wait for the answer, or ignores it): there is
        // no tunnel, so no call may report TUNNEL; what the parser makes of the bytes is its lenient business
        Exchange x; x.req.a = (long) cp.stream[0].size(); cp.stream[0] += treq; x.req.b = (long) cp.stream[0].size(); x.req_head_end = x.req.b;
        x.res.a = x.res.b = x.res_head_end = (long) cp.stream[1].size();
        cp.xchg.push_back(x);
        p.cfg.set("c16_refused_junk", 1);
    }
    if (tun && (!treq.empty() || !tres.empty())) {
        // the tunnel payload is a pseudo exchange: the client's bytes are offered before the server's (the client speaks first)
        Exchange x; x.req.a = (long) cp.stream[0].size(); cp.stream[0] += treq; x.req.b = (long) cp.stream[0].size(); x.req_head_end = x.req.b;
        x.res.a = (long) cp.stream[1].size(); cp.stream[1] += tres; x.res.b = (long) cp.stream[1].size(); x.res_head_end = x.res.b;
        x.expect.push_back(std::make_pair("@tunnel", "1"));
        // after an upgrade the client cannot know the tunnel exists before it has the 101: its tunnel bytes come after it.
        // (After CONNECT, early client bytes are part of the scenario: libhtp must hold them back itself.)
        bool is_connect = cp.stream[0].compare((size_t) cp.xchg[(size_t) ci].req.a, 8, "CONNECT ") == 0;
        if (!is_connect) x.expect.push_back(std::make_pair("@req_after_prev_res", "1"));
        cp.xchg.push_back(x);
    }
    // a fault inside the switch: the RESPONSE_HEADERS callback of the 101 answer stops or fails. The answer has been seen all the
    // same: the request direction must be in tunnel mode afterwards (the client's upgrade payload is not HTTP), the response
    // direction reports the failure (C09) or TUNNEL.
    if (tun && cp.stream[0].compare((size_t) cp.xchg[(size_t) ci].req.a, 8, "CONNECT ") != 0 && rng.chance(1, 3)) {
        CbFault cf; cf.hook = HK_RESPONSE_HEADERS; cf.nth = ci + 1; cf.action = rng.coin() ? CB_STOP : CB_ERROR; p.cbs.push_back(cf);
        p.cfg.set("c16_cbfault", 1);
    }
    std::vector<Extent> m0, m1; for (auto &x : cp.xchg) { m0.push_back(x.req); m1.push_back(x.res); }
    static const size_t MEANS[] = {1, 2, 3, 5, 8, 16, 64, 512};
    int s0 = (int) rng.below(ST_ONECUT), s1 = (int) rng.below(ST_ONECUT);
    auto c0 = choose_cuts(rng, cp.stream[0], m0, s0, MEANS[rng.below(8)]);
    auto c1 = choose_cuts(rng, cp.stream[1], m1, s1, MEANS[rng.below(8)]);
    for (auto &x : cp.xchg) for (auto &e : x.expect) if (e.first == "@req_after_prev_res" && x.req.a > 0) { c0.push_back((size_t) x.req.a); std::sort(c0.begin(), c0.end()); c0.erase(std::unique(c0.begin(), c0.end()), c0.end()); }
    static const int BIAS[] = {20, 50, 80, 100, 100};
    interleave_ops(rng, cp, 0, c0, c1, BIAS[rng.below(5)], true, false, p.ops);
}

static bool check_c16(const Plan &p, const RunResult &r, std::string &oracle, std::string &detail) {
    const ConnPlan &cp = p.conns[0];
    size_t ci = (size_t) p.cfg.get("c16_connect_idx", 0);
    bool tun = p.cfg.get("c16_expect_tunnel", 0) != 0;
    if (ci >= cp.xchg.size()) return true;
    const Exchange &cx = cp.xchg[ci];
    bool is_connect = cp.stream[0].compare((size_t) cx.req.a, 8, "CONNECT ") == 0;
    // (i) nothing beyond the CONNECT head is consumed before any byte of its response has been offered
    long req_consumed = 0, res_consumed = 0, res_offered = 0;
    int tunnel_seen[2] = {0, 0};
    for (auto &c : r.calls) {
        int d = (c.kind == 'Q' || c.kind == 'q') ? 0 : 1;
        long took = c.rc == 5 ? c.consumed : c.len;
        if (d == 1) { res_offered = std::max(res_offered, res_consumed + c.len); res_consumed += took; }
        else {
            req_consumed += took;
            if (is_connect && res_offered <= cx.res.a && req_consumed > cx.req.b) {
                oracle = "C16.consumed_past_connect_before_response"; detail = strfmt("request direction consumed %ld bytes, CONNECT head ends at %ld, no byte of its response offered yet", req_consumed, cx.req.b); return false;
            }
        }
        // (ii) once a direction reported TUNNEL it keeps doing so and runs no callbacks
        if (tunnel_seen[d]) {
            if (c.rc != 4) { oracle = "C16.left_tunnel_mode"; detail = strfmt("dir=%d rc=%d after TUNNEL", d, c.rc); return false; }
            if (c.cbs > 0) { oracle = "C16.callbacks_in_tunnel_mode"; detail = strfmt("dir=%d %d callbacks", d, c.cbs); return false; }
        }
        if (c.rc == 4) tunnel_seen[d] = 1;
    }
    if (tun) {
        // tunnel mode must have been reached by the time everything was offered: for an upgrade (101) always; for CONNECT once
        // the client's first tunnel bytes (which contain a NUL, ending the probe line) have been offered after the 2xx answer
        bool req_after = (long) cp.stream[0].size() > cx.req.b;
        bool expect_mode = !is_connect || req_after;
        if (expect_mode && r.conns[0].pre_close_status[0] >= 0) {
            if (r.conns[0].pre_close_status[0] != 4) { oracle = "C16.request_side_not_in_tunnel_mode"; detail = strfmt("request stream state %d after all traffic was offered", r.conns[0].pre_close_status[0]); return false; }
            bool cbf = p.cfg.get("c16_cbfault", 0) != 0;   // the failing callback may have put the response direction into STOP / ERROR instead
            if (r.conns[0].pre_close_status[1] != 4 && !(cbf && (r.conns[0].pre_close_status[1] == 3 || r.conns[0].pre_close_status[1] == 6))) { oracle = "C16.response_side_not_in_tunnel_mode"; detail = strfmt("response stream state %d after all traffic was offered", r.conns[0].pre_close_status[1]); return false; }
        }
        if (r.conns[0].tx_count_at_tunnel >= 0 && (int) r.conns[0].txs.size() != r.conns[0].tx_count_at_tunnel) { oracle = "C16.transactions_created_in_tunnel_mode"; detail = strfmt("%d at tunnel start, %zu at the end", r.conns[0].tx_count_at_tunnel, r.conns[0].txs.size()); return false; }
        if (r.conns[0].txs.size() != ci + 1) { oracle = "C16.tx_count"; detail = strfmt("%zu transactions reported, %zu exchanges up to and including the tunnel set-up", r.conns[0].txs.size(), ci + 1); return false; }
        return true;
    }
    // (iii) no tunnel: every exchange, before and after, is reported exactly; no request byte skipped or parsed twice
    if (tunnel_seen[0] || tunnel_seen[1]) { oracle = "C16.unexpected_tunnel"; detail = "CONNECT refused or tunnel carrying plain HTTP, yet a call reported TUNNEL"; return false; }
    if (p.cfg.get("c16_refused_junk", 0)) return check_fidelity(p, r, "C16.before_junk", oracle, detail, ci + 1);
    if (!check_fidelity(p, r, "C16.after_connect", oracle, detail)) return false;
    if (!check_bodies(p, r, oracle, detail)) { oracle = "C16." + oracle; return false; }
    return true;
}

// ================================================================================================
// dispatch
// ================================================================================================

std::string plan_trigger(const Plan &p) {
    (void) p;   // no known finding is identified by a trigger predicate any more (K05, K06 were repaired: F40, F41)
    return "";
}

bool is_known_property(const std::string &prop) {
    static const char *P[] = {"C01", "C02", "C03", "C04", "C05", "C06", "C07", "C08", "C09", "C10", "C11", "C14", "C15", "C16", "C18", "C19"};
    for (auto q : P) if (prop == q) return true;
    return false;
}

bool generate_plan(const std::string &prop, uint64_t seed, Plan &out) {
    out = Plan();
    out.seed = seed;
    Rng rng(seed);
    if (prop == "C10" && (seed % 16) == 5) c10_steady_plan(rng, out);
    else if (prop == "C01" || prop == "C05" || prop == "C09" || prop == "C10") chaos_plan(rng, out, prop);
    else if (prop == "C03") c03_plan(rng, out, seed);
    else if (prop == "C06" && seed % 4 == 3) chaos_plan(rng, out, "C06");   // the accounting half of C06 is stated for every input
    else if (prop == "C02" || prop == "C04" || prop == "C06") wf_plan(rng, out, prop);
    else if (prop == "C11") c11_plan(rng, out, seed);
    else if (prop == "C16") c16_plan(rng, out);
    else if (prop == "C15") c15_plan(rng, out);
    else if (prop == "C08") c08_plan(rng, out, seed);
    else if (prop == "C18") c18_plan(rng, out);
    else if (prop == "C19") c19_plan(rng, out);
    else if (prop == "C14") c14_plan(rng, out);
    else if (prop == "C07" && seed % 8 == 5) c07_layers_plan(rng, out);
    else if (prop == "C07") { if (seed % 4 == 3) { chaos_plan(rng, out, "C07"); out.cfg.set("res_decomp", 1); if (rng.coin()) { static const long B[] = {1024, 4096, 65536}; out.cfg.set("bomb_limit", B[rng.below(3)]); } } else c07_plan(rng, out, seed / 4); }
    else return false;
    return true;
}

static void first_violation_of(const RunResult &r, const std::string &prop, Verdict &v) {
    for (auto &x : r.viol) {
        bool mine = x.prop == prop;
        if (mine) { v.violated = true; v.oracle = x.oracle; v.detail = x.detail; return; }
    }
}

bool g_debug_dump = false;
static void debug_dump(const char *label, const RunResult &r) {
    if (!g_debug_dump) return;
    printf("---- %s: %zu tx, %zu calls\n", label, r.txs.size(), r.calls.size());
    for (auto &c : r.calls) printf("  call %c len=%ld rc=%d consumed=%ld state=%s/%s cbs=%d connflags=%u ntx=%d next_tx=%d\n", c.kind, c.len, c.rc, c.consumed, state_name(0, c.in_state), state_name(1, c.out_state), c.cbs, c.conn_flags_after, c.ntx_after, c.next_tx_after);
    for (auto &t : r.txs) {
        printf("  tx#%d conn=%d cbseq=%s body=%zu/%zu\n", t.ordinal, t.conn, t.cbseq_full.c_str(), t.body[0].size(), t.body[1].size());
        for (auto &kv : t.dump) printf("    %s = %s\n", kv.first.c_str(), esc_encode(kv.second.substr(0, 120)).c_str());
        printf("    @body.req = %s\n    @body.res = %s\n", esc_encode(t.body[0].substr(0, 200)).c_str(), esc_encode(t.body[1].substr(0, 200)).c_str());
    }
    for (auto &x : r.viol) printf("  viol %s %s %s\n", x.prop.c_str(), x.oracle.c_str(), x.detail.c_str());
}

static void note_run(const RunResult &r, const Plan &p, Verdict &v, Agg *agg) {
    debug_dump("run", r);
    v.executions++;
    v.sig = r.behaviour_sig; v.hash = r.hash;
    bool has_cut_or_fault = r.st.cuts > 0 || r.st.gaps > 0 || !p.cbs.empty() || p.alloc_fail_at || r.st.closes > 1 || r.st.aborts > 0;
    v.nontrivial = r.st.tx_completed >= 1 && has_cut_or_fault;
    if (agg) agg->add_run(r);
}

Verdict evaluate_plan(const Plan &p, Agg *agg) {
    Verdict v;
    const std::string &prop = p.prop;
    if (prop == "C01" || prop == "C05" || prop == "C09" || prop == "C10") {
        RunResult r; execute_plan(p, r); note_run(r, p, v, agg);
        first_violation_of(r, prop, v);
        if (!v.violated && prop == "C10" && p.cfg.has("c10_long_len") && p.cbs.empty()) {
            // "exceeding it is reported as an error for that direction, not silently truncated": if some call ended inside the over-long
            // line at a point where more than the hard limit of it was unfinished, that direction must have reported ERROR
            int d = (int) p.cfg.get("c10_long_dir", 0); long start = p.cfg.get("c10_long_start", 0), len = p.cfg.get("c10_long_len", 0), hard = p.cfg.get("field_hard", 18000);
            long pos = 0; bool must = false, gap = false;
            for (auto &op : p.ops) { if (op.conn != 0) continue; int od = (op.kind == 'Q' || op.kind == 'q') ? 0 : (op.kind == 'S' || op.kind == 's') ? 1 : -1; if (op.kind == 'q' || op.kind == 's') gap = true; if (od != d) continue; pos += op.n; if (pos > start + hard && pos < start + len) must = true; }
            bool closed_early = false; for (auto &op : p.ops) if (op.kind == 'c' || op.kind == 'C' || op.kind == 'D' || op.kind == 'Z' || op.kind == 'z' || op.kind == 'T' || op.kind == 'R') closed_early = true;
            if (must && !gap && !closed_early && r.conns[0].sticky[d] != 3) { v.violated = true; v.oracle = d ? "C10.limit_exceeded_not_reported.response" : "C10.limit_exceeded_not_reported.request"; v.detail = strfmt("a call ended inside a line of %ld bytes with more than the hard limit (%ld) of it unfinished; sticky state of that direction: %d", len, hard, r.conns[0].sticky[d]); }
            if (agg && must) agg->inc("c10.limit_must_be_reported");
        }
        if (!v.violated && prop == "C10" && p.scenario.compare(0, 6, "steady") == 0) {
            first_violation_of(r, "C01", v); if (v.violated) { v.oracle = "C10.via." + v.oracle; return v; }
            std::string o, d; if (!check_c10_steady(p, r, o, d)) { v.violated = true; v.oracle = o; v.detail = d; }
            if (agg) { agg->inc("c10.steady_runs"); agg->inc("c10.steady_transactions", r.live_after_tx.size()); }
        }
        return v;
    }
    if (prop == "C03") {
        Plan ref = reference_schedule(p);
        RunResult a, b;
        execute_plan(ref, a); if (agg) agg->add_run(a); v.executions++; debug_dump("reference", a);
        execute_plan(p, b); note_run(b, p, v, agg);
        // a memory-safety report in either run makes the comparison meaningless: report it here with the sanitizer's id
        first_violation_of(a, "C01", v); if (!v.violated) first_violation_of(b, "C01", v);
        if (v.violated) { v.oracle = "C03.via." + v.oracle; return v; }
        std::string o, d;
        if (!compare_runs_c03(a, b, o, d)) { v.violated = true; v.oracle = o; v.detail = d; }
        return v;
    }
    if (prop == "C02" || prop == "C04" || prop == "C06") {
        RunResult r; execute_plan(p, r); note_run(r, p, v, agg);
        first_violation_of(r, "C01", v);
        if (v.violated) { v.oracle = prop + ".via." + v.oracle; return v; }
        std::string o, d; bool ok = true;
        if (prop == "C02") ok = check_fidelity(p, r, "C02", o, d);
        else if (prop == "C04") ok = check_pairing(p, r, o, d);
        else {
            first_violation_of(r, "C06", v); if (v.violated) return v;
            if (p.scenario.compare(0, 5, "chaos") == 0) return v;   // no ground truth: the all-input monitors decide
            ok = check_bodies(p, r, o, d);
            if (ok) ok = check_fidelity(p, r, "C06.next_message", o, d);   // "the bytes following the body start the next message"
        }
        if (!ok) { v.violated = true; v.oracle = o; v.detail = d; }
        return v;
    }
    if (prop == "C11") {
        RunResult r; execute_plan(p, r); note_run(r, p, v, agg);
        first_violation_of(r, "C01", v);
        if (v.violated) { v.oracle = prop + ".via." + v.oracle; return v; }
        std::string o, d;
        if (!check_c11(p, r, o, d, agg)) { v.violated = true; v.oracle = o; v.detail = d; }
        return v;
    }
    if (prop == "C15") { eval_c15(p, v, agg); return v; }
    if (prop == "C08") { eval_c08(p, v, agg); return v; }
    if (prop == "C18") { eval_c18(p, v, agg); return v; }
    if (prop == "C19") { eval_c19(p, v, agg); return v; }
    if (prop == "C14") { eval_c14(p, v, agg); return v; }
    if (prop == "C07") {
        RunResult r; execute_plan(p, r); note_run(r, p, v, agg);
        first_violation_of(r, "C01", v);
        if (v.violated) { v.oracle = prop + ".via." + v.oracle; return v; }
        first_violation_of(r, "C07", v);
        if (v.violated) return v;
        if (p.scenario.compare(0, 6, "layers") == 0) { std::string o, d; if (!check_c07_layers(p, r, o, d, agg)) { v.violated = true; v.oracle = o; v.detail = d; } return v; }
        if (p.scenario.compare(0, 6, "coding") == 0) {
            std::string o, d;
            if (!check_c07(p, r, o, d, agg)) { v.violated = true; v.oracle = o; v.detail = d; }
            if (agg) agg->inc(std::string("c07.coding.") + C07_CODINGS[p.cfg.get("c07_coding", 0) % C07_NCOD]);
        }
        return v;
    }
    if (prop == "C16") {
        RunResult r; execute_plan(p, r); note_run(r, p, v, agg);
        first_violation_of(r, "C01", v); if (!v.violated) first_violation_of(r, "C09", v);
        if (v.violated) { v.oracle = prop + ".via." + v.oracle; return v; }
        std::string o, d;
        if (!check_c16(p, r, o, d)) { v.violated = true; v.oracle = o; v.detail = d; }
        if (agg) agg->inc(p.cfg.get("c16_expect_tunnel", 0) ? "c16.tunnel_expected" : "c16.http_resumes");
        return v;
    }
    v.violated = true; v.oracle = "machinery.unknown_property"; v.detail = prop;
    return v;
}

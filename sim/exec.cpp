#include "exec.h"
#include <deque>
#include <set>
#include <thread>
#include <mutex>
#include <condition_variable>

#include "htp/htp_private.h"

extern "C" {
// weak: a changed tree that renames a state function must still link; the state is then "unknown"
#define WEAKSTATE(n) htp_status_t n(htp_connp_t *) __attribute__((weak));
WEAKSTATE(htp_connp_REQ_IDLE) WEAKSTATE(htp_connp_REQ_LINE) WEAKSTATE(htp_connp_REQ_PROTOCOL) WEAKSTATE(htp_connp_REQ_HEADERS)
WEAKSTATE(htp_connp_REQ_CONNECT_CHECK) WEAKSTATE(htp_connp_REQ_CONNECT_WAIT_RESPONSE) WEAKSTATE(htp_connp_REQ_CONNECT_PROBE_DATA)
WEAKSTATE(htp_connp_REQ_BODY_DETERMINE) WEAKSTATE(htp_connp_REQ_BODY_IDENTITY) WEAKSTATE(htp_connp_REQ_BODY_CHUNKED_LENGTH)
WEAKSTATE(htp_connp_REQ_BODY_CHUNKED_DATA) WEAKSTATE(htp_connp_REQ_BODY_CHUNKED_DATA_END) WEAKSTATE(htp_connp_REQ_FINALIZE)
WEAKSTATE(htp_connp_REQ_IGNORE_DATA_AFTER_HTTP_0_9)
WEAKSTATE(htp_connp_RES_IDLE) WEAKSTATE(htp_connp_RES_LINE) WEAKSTATE(htp_connp_RES_HEADERS) WEAKSTATE(htp_connp_RES_BODY_DETERMINE)
WEAKSTATE(htp_connp_RES_BODY_IDENTITY_CL_KNOWN) WEAKSTATE(htp_connp_RES_BODY_IDENTITY_STREAM_CLOSE)
WEAKSTATE(htp_connp_RES_BODY_CHUNKED_LENGTH) WEAKSTATE(htp_connp_RES_BODY_CHUNKED_DATA) WEAKSTATE(htp_connp_RES_BODY_CHUNKED_DATA_END)
WEAKSTATE(htp_connp_RES_FINALIZE)
}

typedef htp_status_t (*state_fn)(htp_connp_t *);
static const struct { state_fn fn; const char *name; } IN_STATES[] = {
    {htp_connp_REQ_IDLE, "REQ_IDLE"}, {htp_connp_REQ_LINE, "REQ_LINE"}, {htp_connp_REQ_PROTOCOL, "REQ_PROTOCOL"},
    {htp_connp_REQ_HEADERS, "REQ_HEADERS"}, {htp_connp_REQ_CONNECT_CHECK, "REQ_CONNECT_CHECK"},
    {htp_connp_REQ_CONNECT_WAIT_RESPONSE, "REQ_CONNECT_WAIT_RESPONSE"}, {htp_connp_REQ_CONNECT_PROBE_DATA, "REQ_CONNECT_PROBE_DATA"},
    {htp_connp_REQ_BODY_DETERMINE, "REQ_BODY_DETERMINE"}, {htp_connp_REQ_BODY_IDENTITY, "REQ_BODY_IDENTITY"},
    {htp_connp_REQ_BODY_CHUNKED_LENGTH, "REQ_BODY_CHUNKED_LENGTH"}, {htp_connp_REQ_BODY_CHUNKED_DATA, "REQ_BODY_CHUNKED_DATA"},
    {htp_connp_REQ_BODY_CHUNKED_DATA_END, "REQ_BODY_CHUNKED_DATA_END"}, {htp_connp_REQ_FINALIZE, "REQ_FINALIZE"},
    {htp_connp_REQ_IGNORE_DATA_AFTER_HTTP_0_9, "REQ_IGNORE_DATA_AFTER_HTTP_0_9"}};
static const struct { state_fn fn; const char *name; } OUT_STATES[] = {
    {htp_connp_RES_IDLE, "RES_IDLE"}, {htp_connp_RES_LINE, "RES_LINE"}, {htp_connp_RES_HEADERS, "RES_HEADERS"},
    {htp_connp_RES_BODY_DETERMINE, "RES_BODY_DETERMINE"}, {htp_connp_RES_BODY_IDENTITY_CL_KNOWN, "RES_BODY_IDENTITY_CL_KNOWN"},
    {htp_connp_RES_BODY_IDENTITY_STREAM_CLOSE, "RES_BODY_IDENTITY_STREAM_CLOSE"}, {htp_connp_RES_BODY_CHUNKED_LENGTH, "RES_BODY_CHUNKED_LENGTH"},
    {htp_connp_RES_BODY_CHUNKED_DATA, "RES_BODY_CHUNKED_DATA"}, {htp_connp_RES_BODY_CHUNKED_DATA_END, "RES_BODY_CHUNKED_DATA_END"},
    {htp_connp_RES_FINALIZE, "RES_FINALIZE"}};
const int N_STATES_IN = (int) (sizeof IN_STATES / sizeof IN_STATES[0]) + 1;
const int N_STATES_OUT = (int) (sizeof OUT_STATES / sizeof OUT_STATES[0]) + 1;

int state_id_in(void *cp) {
    htp_connp_t *c = (htp_connp_t *) cp;
    for (int i = 0; i < N_STATES_IN - 1; i++) if (IN_STATES[i].fn && (state_fn) c->in_state == IN_STATES[i].fn) return i;
    return N_STATES_IN - 1;
}
int state_id_out(void *cp) {
    htp_connp_t *c = (htp_connp_t *) cp;
    for (int i = 0; i < N_STATES_OUT - 1; i++) if (OUT_STATES[i].fn && (state_fn) c->out_state == OUT_STATES[i].fn) return i;
    return N_STATES_OUT - 1;
}
const char *state_name(int dir, int id) {
    if (dir == 0) return id < N_STATES_IN - 1 ? IN_STATES[id].name : "REQ_?";
    return id < N_STATES_OUT - 1 ? OUT_STATES[id].name : "RES_?";
}

// ------------------------------------------------------------------------------------------------

struct Chunk { Bytes data; bool gap = false; long gap_len = 0; long len() const { return gap ? gap_len : (long) data.size(); } };

struct ConnState {
    int idx = 0;
    htp_connp_t *connp = nullptr;
    bool alive = false, opened = false, closed = false, req_closed = false;
    size_t cursor[2] = {0, 0};
    bool suspended[2] = {false, false};
    std::deque<Chunk> queue[2];
};

struct Exec {
    const Plan *plan = nullptr;
    RunResult *res = nullptr;
    htp_cfg_t *cfg = nullptr;
    std::vector<ConnState> conns;
    int hook_count[HK_COUNT];
    Fnv log;       // event log hash
    Fnv beh;       // behaviour signature
    long disposal = 0;
    bool null_ts = false;
    bool any_cb_failure = false;   // some scripted callback of this run returned STOP / ERROR
    size_t cfg_snapshot_hash = 0;
    int cap_body = 1 << 22;
};

std::set<std::string> g_known_sites;
static thread_local Exec *g_ex = nullptr;
static thread_local CallRec *g_cur_call = nullptr;   // the API call in progress on this thread
static thread_local ConnState *g_cur_conn = nullptr;

static void violate(Exec *ex, const char *prop, const std::string &oracle, const std::string &detail) {
    // keep the first few only; the first one of the property under check is the verdict
    if (ex->res->viol.size() < 32) { Violation v; v.prop = prop; v.oracle = oracle; v.detail = detail; ex->res->viol.push_back(v); }
}

static Bytes bstr_bytes(const bstr *b) { return b ? Bytes((const char *) bstr_ptr(b), bstr_len(b)) : Bytes(); }
static void put(Dump &d, const std::string &k, const Bytes &v) { d.push_back(std::make_pair(k, v)); }
static void putn(Dump &d, const std::string &k, long long v) { d.push_back(std::make_pair(k, strfmt("%lld", v))); }
static void putb(Dump &d, const std::string &k, const bstr *b) { if (b) put(d, k, bstr_bytes(b)); else put(d, k, "<null>"); }

static void dump_uri(Dump &d, const char *pfx, htp_uri_t *u) {
    std::string p = pfx;
    if (!u) { put(d, p, "<null>"); return; }
    putb(d, p + ".scheme", u->scheme); putb(d, p + ".user", u->username); putb(d, p + ".pass", u->password);
    putb(d, p + ".host", u->hostname); putb(d, p + ".port", u->port); putn(d, p + ".portnum", u->port_number);
    putb(d, p + ".path", u->path); putb(d, p + ".query", u->query); putb(d, p + ".frag", u->fragment);
}

static void dump_headers(Dump &d, const char *pfx, htp_table_t *t) {
    std::string p = pfx;
    if (!t) { put(d, p + ".count", "<null>"); return; }
    size_t n = htp_table_size(t);
    putn(d, p + ".count", (long long) n);
    for (size_t i = 0; i < n; i++) {
        bstr *key = NULL;
        htp_header_t *h = (htp_header_t *) htp_table_get_index(t, i, &key);
        if (!h) continue;
        std::string q = p + strfmt(".%zu", i);
        putb(d, q + ".name", h->name); putb(d, q + ".value", h->value); putn(d, q + ".flags", (long long) h->flags);
        // case-insensitive lookup with a re-cased name must return the first field of that name
        if (h->name && bstr_len(h->name) > 0 && bstr_len(h->name) < 200) {
            char nm[201]; size_t nl = bstr_len(h->name); memcpy(nm, bstr_ptr(h->name), nl); nm[nl] = 0;
            bool has_nul = memchr(nm, 0, nl) != NULL;
            for (size_t k = 0; k < nl; k++) nm[k] = (char) (isupper((unsigned char) nm[k]) ? tolower((unsigned char) nm[k]) : toupper((unsigned char) nm[k]));
            if (!has_nul) {
                htp_header_t *g = (htp_header_t *) htp_table_get_c(t, nm);
                size_t first = n;
                for (size_t j = 0; j < n; j++) { htp_header_t *o = (htp_header_t *) htp_table_get_index(t, j, NULL); if (o && o->name && bstr_cmp_nocase(o->name, h->name) == 0) { first = j; break; } }
                htp_header_t *want = first < n ? (htp_header_t *) htp_table_get_index(t, first, NULL) : NULL;
                put(d, q + ".lookup", g == want ? "ok" : "mismatch");
            }
        }
    }
}

static void dump_multipart(Dump &d, htp_mpartp_t *mp) {
    htp_multipart_t *m = htp_mpartp_get_multipart(mp);
    if (!m) return;
    putn(d, "mpart.flags", (long long) m->flags);
    putn(d, "mpart.boundary_count", m->boundary_count);
    size_t n = m->parts ? htp_list_size(m->parts) : 0;
    putn(d, "mpart.count", (long long) n);
    for (size_t i = 0; i < n; i++) {
        htp_multipart_part_t *pt = (htp_multipart_part_t *) htp_list_get(m->parts, i);
        if (!pt) continue;
        std::string q = strfmt("mpart.%zu", i);
        putn(d, q + ".type", pt->type); putb(d, q + ".name", pt->name); putb(d, q + ".value", pt->value);
        putb(d, q + ".ct", pt->content_type);
        if (pt->file) { putb(d, q + ".filename", pt->file->filename); putn(d, q + ".filelen", pt->file->len);
                        put(d, q + ".tmpname", pt->file->tmpname ? Bytes("<set>") : Bytes("<null>")); }   // the name itself comes from mkstemp (simulated: a global counter), not from the traffic
        dump_headers(d, (q + ".hdr").c_str(), pt->headers);
    }
}

static void dump_tx(htp_tx_t *tx, Dump &d) {
    d.clear();
    putb(d, "req.line", tx->request_line); putb(d, "req.method", tx->request_method); putn(d, "req.method_num", tx->request_method_number);
    putb(d, "req.uri", tx->request_uri); putb(d, "req.protocol", tx->request_protocol); putn(d, "req.protocol_num", tx->request_protocol_number);
    putn(d, "req.is09", tx->is_protocol_0_9); putn(d, "req.ignored", tx->request_ignored_lines);
    dump_uri(d, "uri", tx->parsed_uri); dump_uri(d, "rawuri", tx->parsed_uri_raw);
    putn(d, "req.msglen", tx->request_message_len); putn(d, "req.entlen", tx->request_entity_len);
    dump_headers(d, "req.hdr", tx->request_headers);
    putn(d, "req.te", tx->request_transfer_coding); putn(d, "req.ce", tx->request_content_encoding);
    putb(d, "req.ct", tx->request_content_type); putn(d, "req.cl", tx->request_content_length);
    if (tx->request_params) {
        size_t n = htp_table_size(tx->request_params);
        putn(d, "req.param.count", (long long) n);
        for (size_t i = 0; i < n; i++) {
            htp_param_t *p = (htp_param_t *) htp_table_get_index(tx->request_params, i, NULL);
            if (!p) continue;
            std::string q = strfmt("req.param.%zu", i);
            putb(d, q + ".name", p->name); putb(d, q + ".value", p->value); putn(d, q + ".source", p->source); putn(d, q + ".parser", p->parser_id);
        }
    }
    if (tx->request_cookies) {
        size_t n = htp_table_size(tx->request_cookies);
        putn(d, "req.cookie.count", (long long) n);
        for (size_t i = 0; i < n; i++) {
            bstr *key = NULL;
            bstr *v = (bstr *) htp_table_get_index(tx->request_cookies, i, &key);
            std::string q = strfmt("req.cookie.%zu", i);
            putb(d, q + ".name", key); putb(d, q + ".value", v);
        }
    } else put(d, "req.cookie.count", "<null>");
    putn(d, "req.auth.type", tx->request_auth_type); putb(d, "req.auth.user", tx->request_auth_username); putb(d, "req.auth.pass", tx->request_auth_password);
    putb(d, "req.host", tx->request_hostname); putn(d, "req.port", tx->request_port_number);
    if (tx->request_mpartp) dump_multipart(d, tx->request_mpartp);
    putb(d, "res.line", tx->response_line); putb(d, "res.protocol", tx->response_protocol); putn(d, "res.protocol_num", tx->response_protocol_number);
    putb(d, "res.status", tx->response_status); putn(d, "res.status_num", tx->response_status_number);
    putn(d, "res.expected", tx->response_status_expected_number); putb(d, "res.message", tx->response_message);
    putn(d, "res.seen100", tx->seen_100continue); putn(d, "res.ignored", tx->response_ignored_lines);
    dump_headers(d, "res.hdr", tx->response_headers);
    putn(d, "res.msglen", tx->response_message_len); putn(d, "res.entlen", tx->response_entity_len); putn(d, "res.cl", tx->response_content_length);
    putn(d, "res.te", tx->response_transfer_coding); putn(d, "res.ce", tx->response_content_encoding); putn(d, "res.cep", tx->response_content_encoding_processing);
    putb(d, "res.ct", tx->response_content_type);
    putn(d, "flags", (long long) tx->flags);
    putn(d, "req.progress", tx->request_progress); putn(d, "res.progress", tx->response_progress);
}

const Bytes *dump_get(const Dump &d, const std::string &key) {
    for (auto &kv : d) if (kv.first == key) return &kv.second;
    return nullptr;
}

std::string dump_first_diff(const Dump &a, const Dump &b, bool mask_multipacket) {
    size_t n = std::min(a.size(), b.size());
    for (size_t i = 0; i < n; i++) {
        if (a[i].first != b[i].first) return a[i].first + "|" + b[i].first;
        if (a[i].second != b[i].second) {
            if (mask_multipacket && a[i].first == "flags") {
                unsigned long long x = strtoull(a[i].second.c_str(), 0, 10), y = strtoull(b[i].second.c_str(), 0, 10);
                if ((x & ~HTP_MULTI_PACKET_HEAD) == (y & ~HTP_MULTI_PACKET_HEAD)) continue;
            }
            return a[i].first;
        }
    }
    if (a.size() != b.size()) return a.size() > n ? a[n].first : b[n].first;
    return "";
}

// ------------------------------------------------------------------------------------------------
// transaction records

static TxRec &rec_for(Exec *ex, htp_tx_t *tx) {
    intptr_t tag = (intptr_t) tx->user_data;
    if (tag > 0 && (size_t) tag <= ex->res->txs.size() && ex->res->txs[tag - 1].tx_ptr == tx && ex->res->txs[tag - 1].alive)
        return ex->res->txs[tag - 1];
    TxRec r;
    r.ordinal = (int) ex->res->txs.size();
    r.tx_ptr = tx;
    ConnState *cs = tx->connp ? (ConnState *) htp_connp_get_user_data(tx->connp) : g_cur_conn;
    r.conn = cs ? cs->idx : 0;
    if (cs) { const ConnRes &cr = ex->res->conns[cs->idx]; for (int d = 0; d < 2; d++) r.offered_at_start[d] = g_cur_call ? std::min(cr.offered_before_call[d], cr.offered[d]) : cr.offered[d]; }
    ex->res->txs.push_back(r);
    tx->user_data = (void *) (intptr_t) (r.ordinal + 1);
    if (cs) ex->res->conns[cs->idx].txs.push_back(r.ordinal);
    ex->res->st.tx_created++;
    return ex->res->txs.back();
}

static void take_dump(Exec *ex, htp_tx_t *tx, TxRec &r, bool at_complete) {
    (void) ex;
    dump_tx(tx, r.dump);
    r.have_dump = true; r.dump_at_complete = at_complete;
}

static void destroy_earlier_done_tx(Exec *ex, htp_tx_t *current) {
    htp_conn_t *conn = current->conn;
    if (!conn || !conn->transactions) return;
    size_t n = htp_list_size(conn->transactions);
    for (size_t i = 0; i < n; i++) {
        htp_tx_t *t = (htp_tx_t *) htp_list_get(conn->transactions, i);
        if (!t || t == current) continue;
        if (t == current->connp->in_tx || t == current->connp->out_tx) continue;   // still attached to the parser: not "completed and done"
        if (htp_tx_is_complete(t) != 1) continue;
        TxRec &r = rec_for(ex, t);
        if (!r.have_dump) take_dump(ex, t, r, false);
        if (htp_tx_destroy(t) == HTP_OK) { r.alive = false; r.tx_ptr = nullptr; ex->res->st.disposals++; }
        return;
    }
}

// hook meta: side (0 req, 1 res, 2 tx-complete), rank, single (must be strictly increasing), letter
struct HookMeta { int side; int rank; bool single; char letter; };
static const HookMeta HOOKS[HK_COUNT] = {
    {0, 1, true, 'a'},   // request_start
    {0, 3, true, 'c'},   // request_line
    {0, 2, true, 'b'},   // request_uri_normalize
    {0, 4, false, 'd'},  // request_header_data
    {0, 5, true, 'e'},   // request_headers
    {0, 6, false, 'f'},  // request_body_data
    {0, 6, false, 'g'},  // request_file_data
    {0, 7, false, 'h'},  // request_trailer_data
    {0, 7, false, 'i'},  // request_trailer
    {0, 9, true, 'j'},   // request_complete
    {1, 1, true, 'A'},   // response_start
    {1, 3, true, 'C'},   // response_line
    {1, 4, false, 'D'},  // response_header_data
    {1, 5, true, 'E'},   // response_headers
    {1, 6, false, 'F'},  // response_body_data
    {1, 7, false, 'H'},  // response_trailer_data
    {1, 7, false, 'I'},  // response_trailer
    {1, 9, true, 'J'},   // response_complete
    {2, 10, true, 'Z'},  // transaction_complete
    {3, 0, false, 'l'},  // log
    {0, 6, false, 'x'},  // tx-level request body
    {1, 6, false, 'X'},  // tx-level response body
};

static int scripted_action(Exec *ex, int hook) {
    int n = ++ex->hook_count[hook];
    for (auto &f : ex->plan->cbs) if (f.hook == hook && f.nth == n) return f.action;
    return CB_OK;
}

static int apply_action(Exec *ex, int hook, int action, htp_tx_t *tx, TxRec *r) {
    if (action != CB_OK) ex->res->st.cb_faults_fired[action]++;
    if ((action == CB_STOP || action == CB_ERROR) && g_cur_call && !g_cur_call->cbfault_hook) { g_cur_call->cbfault_hook = hook + 1; g_cur_call->cbfault_ret = action == CB_STOP ? HTP_STOP : HTP_ERROR; }
    if ((action == CB_STOP || action == CB_ERROR) && tx && (hook == HK_RESPONSE_HEADERS || hook == HK_RESPONSE_HEADER_DATA) && tx->response_status_number == 101) ex->res->probes["cbfault.in_headers_of_101"]++;
    if ((action == CB_STOP || action == CB_ERROR) && tx && tx->request_method_number == HTP_M_CONNECT) ex->res->probes["cbfault.in_connect_exchange"]++;
    switch (action) {
        case CB_DECLINED: return HTP_DECLINED;
        case CB_STOP: if (r && HOOKS[hook].side < 2) r->cb_nonok[HOOKS[hook].side] = true; if (r) r->cb_nonok_any = true; ex->any_cb_failure = true; return HTP_STOP;
        case CB_ERROR: if (r && HOOKS[hook].side < 2) r->cb_nonok[HOOKS[hook].side] = true; if (r) r->cb_nonok_any = true; ex->any_cb_failure = true; return HTP_ERROR;
        case CB_REG_TX_HOOKS: {
            extern int cb_tx_req_body(htp_tx_data_t *); extern int cb_tx_res_body(htp_tx_data_t *);
            if (tx) { htp_tx_register_request_body_data(tx, cb_tx_req_body); htp_tx_register_response_body_data(tx, cb_tx_res_body); }
            return HTP_OK;
        }
        case CB_DESTROY_DONE_TX: if (tx) destroy_earlier_done_tx(ex, tx); return HTP_OK;
        default: return HTP_OK;
    }
}

// the lifecycle monitor (C05) + common bookkeeping; returns the TxRec
static TxRec *on_event(Exec *ex, int hook, htp_tx_t *tx, bool eob_marker = false) {
    ex->res->st.cbs++;
    if (g_cur_call) g_cur_call->cbs++;
    if (!tx) { ex->log.byte((unsigned char) hook); ex->log.byte(0xfe); return nullptr; }
    TxRec &r = rec_for(ex, tx);
    const HookMeta &m = HOOKS[hook];
    ex->log.byte((unsigned char) hook); ex->log.u64((uint64_t) r.ordinal);
    ex->beh.byte((unsigned char) (0x80 | hook));
    // sequence strings
    r.cbseq_full.push_back(m.letter);
    if (r.cbseq.empty() || m.single || r.cbseq.back() != m.letter) r.cbseq.push_back(m.letter);

    // --- C05
    if (r.n_complete[2] > 0 && hook != HK_TRANSACTION_COMPLETE)
        violate(ex, "C05", "C05.cb_after_tx_complete", strfmt("tx#%d hook=%s after TRANSACTION_COMPLETE", r.ordinal, hook_names[hook]));
    int rp = tx->request_progress, sp = tx->response_progress;
    if (tx->seen_100continue > r.seen100_seen) {
        // the documented restart after an interim 100 response: the response side goes back to "line"
        r.seen100_seen = tx->seen_100continue;
        r.rank[1] = 2; r.await_line = true;
        if (r.last_progress[1] > HTP_RESPONSE_LINE) r.last_progress[1] = HTP_RESPONSE_LINE;
    }
    if (rp < r.last_progress[0])
        violate(ex, "C05", "C05.request_progress_backwards", strfmt("tx#%d %d->%d at %s", r.ordinal, r.last_progress[0], rp, hook_names[hook]));
    if (sp < r.last_progress[1])
        violate(ex, "C05", "C05.response_progress_backwards", strfmt("tx#%d %d->%d at %s", r.ordinal, r.last_progress[1], sp, hook_names[hook]));
    r.last_progress[0] = rp; r.last_progress[1] = sp;
    if (m.side < 2) {
        int prev = r.rank[m.side];
        // the raw header/trailer data receivers are not in the property's callback list (start, line, headers, body
        // data, trailer, complete): their flush points are tied to chunk ends and finalisation, so they are not ranked
        bool skip = hook == HK_RESPONSE_HEADER_DATA || hook == HK_REQUEST_HEADER_DATA || hook == HK_RESPONSE_TRAILER_DATA || hook == HK_REQUEST_TRAILER_DATA;
        if (hook == HK_RESPONSE_LINE) r.await_line = false;
        // the end-of-body marker (data NULL, len 0) is delivered at completion time, after any trailer; it is not body data
        if (eob_marker) skip = true;
        if (!skip) {
            int rank = m.rank;
            bool ok = m.single ? (rank > prev) : (rank >= prev);
            if (!ok) {
                const std::string &site = r.lenient_site[m.side];
                if (!site.empty() && g_known_sites.count(site)) ex->res->known_hits[site]++;
                else violate(ex, "C05", strfmt("C05.order.%s_after_rank%d%s%s", hook_names[hook], prev, site.empty() ? "" : "@", site.c_str()), strfmt("tx#%d seq=%s", r.ordinal, r.cbseq_full.c_str()));
            }
            if (rank > prev) r.rank[m.side] = rank;
        }
    }
    if (hook == HK_REQUEST_COMPLETE) { if (++r.n_complete[0] > 1) violate(ex, "C05", "C05.request_complete_twice", strfmt("tx#%d", r.ordinal)); }
    if (hook == HK_RESPONSE_COMPLETE) { if (++r.n_complete[1] > 1) violate(ex, "C05", "C05.response_complete_twice", strfmt("tx#%d", r.ordinal)); }
    if (hook == HK_TRANSACTION_COMPLETE) {
        if (++r.n_complete[2] > 1) violate(ex, "C05", "C05.transaction_complete_twice", strfmt("tx#%d seq=%s", r.ordinal, r.cbseq_full.c_str()));
        if (rp != HTP_REQUEST_COMPLETE || sp != HTP_RESPONSE_COMPLETE)
            violate(ex, "C05", "C05.tx_complete_while_incomplete", strfmt("tx#%d req=%d res=%d", r.ordinal, rp, sp));
        // "only when both sides are complete": each side's completion was *announced* before - the progress fields alone can
        // be set without the side ever having completed (the completion callbacks are registered in every run)
        if (r.n_complete[0] < 1 || r.n_complete[1] < 1)
            violate(ex, "C05", r.n_complete[0] < 1 ? "C05.tx_complete_without_request_complete" : "C05.tx_complete_without_response_complete", strfmt("tx#%d seq=%s", r.ordinal, r.cbseq_full.c_str()));
    }
    return &r;
}

// ------------------------------------------------------------------------------------------------
// memory-ownership oracle (C19): libhtp built with -fsanitize-coverage=trace-loads,trace-stores calls this
// for every load and store it makes. A store into the shared region (configuration, hook lists, writable
// statics) while parsing, or any access to a block allocated by another task, is a violation - found on the
// first execution of the offending instruction, whatever the schedule.

static thread_local int g_no_preempt = 0;     // > 0 while harness code runs inside a callback
static thread_local bool g_in_data_call = false;
static uint64_t g_access_checks = 0;

static void ownership_access(const void *addr, unsigned size, int is_store) {
    Exec *ex = g_ex;
    if (!ex || !g_seams.track || !g_in_data_call || g_no_preempt) return;
    g_access_checks++;
    int me = g_seams.owner;
    // most accesses hit the block touched last: cache its extent until the live set changes
    static uintptr_t c_lo = 1, c_hi = 0; static int c_owner = -1; static uint64_t c_epoch = ~0ULL;
    int o;
    if (c_epoch == g_alloc_epoch && (uintptr_t) addr >= c_lo && (uintptr_t) addr < c_hi) o = c_owner;
    else { uintptr_t lo = 1, hi = 0; o = seams_block_owner_ex(addr, &lo, &hi); if (o >= 0) { c_lo = lo; c_hi = hi; c_owner = o; c_epoch = g_alloc_epoch; } }
    if (o < 0) {
        if (is_store) for (auto &w : g_watched_statics) if ((uintptr_t) addr >= w.addr && (uintptr_t) addr < w.addr + w.size) {
            violate(ex, "C19", "C19.store_into_static." + w.name, strfmt("%u-byte store at offset %zu of %s by task %d", size, (size_t) ((uintptr_t) addr - w.addr), w.name.c_str(), me));
            return;
        }
        return;
    }
    if (o == 0) { if (is_store) violate(ex, "C19", "C19.store_into_shared_config", strfmt("%u-byte store into a block of the shared configuration by task %d (%s)", size, me, seams_current_phase())); return; }
    if (o != me) violate(ex, "C19", is_store ? "C19.store_into_other_tasks_memory" : "C19.load_from_other_tasks_memory", strfmt("task %d touched a block allocated by task %d (%s)", me, o, seams_current_phase()));
}

// ------------------------------------------------------------------------------------------------
// guarded trace probes in libhtp (-DOISF_LIBHTP_VERIF): reach counters + call-site attribution

// tuning knob behind a guarded hook (htp_decompressors.h): output buffer size of the decompressors; set per plan, never during a run
extern "C" { size_t htp_verif_gzip_buf_size = 8192; }

extern "C" void htp_verif_probe(const char *site, htp_connp_t *connp, long a, long b) {
    Exec *ex = g_ex;
    if (!ex || !site) return;
    ex->res->probes[site]++;
    if (!connp) return;
    if (!strcmp(site, "decomp.restart")) {
        // a restart re-feeds the chunk in hand only. What matters is how many body bytes of this message *earlier calls* had
        // handed to the decompressors (an inflate attempt started by an earlier restart may have swallowed them undecided, so the
        // current instance's total_in alone does not tell): measured by the monitor from the message length at the last return.
        bool any = false; long most = 0;
        if (g_cur_call) {
            bool res_side = g_cur_call->kind == 'S' || g_cur_call->kind == 's';
            htp_tx_t *tx = res_side ? connp->out_tx : connp->in_tx;
            if (tx) { TxRec &r = rec_for(ex, tx); long prior = r.msglen_at_call_end[res_side ? 1 : 0]; if (prior > 0) { r.decomp_restart_lost_input = true; r.decomp_restart_prior = std::max(r.decomp_restart_prior, prior); any = true; most = prior; } }
        }
        if (any) { ex->res->probes["decomp.restart.prior_input"]++; if (most > 13) ex->res->probes["decomp.restart.prior_input_beyond_keepback"]++; }
        return;
    }
    if (!strcmp(site, "req.finalize.as_body") && connp->in_tx) rec_for(ex, connp->in_tx).lenient_site[0] = site;
    else if ((!strcmp(site, "res.finalize.as_body") || !strcmp(site, "res.line.as_body")) && connp->out_tx) rec_for(ex, connp->out_tx).lenient_site[1] = site;
}

// ------------------------------------------------------------------------------------------------
// callbacks registered with libhtp

struct TickFreeze { uint64_t t0; TickFreeze() : t0(g_seams.ticks) { g_no_preempt++; } ~TickFreeze() { g_seams.ticks = t0; g_no_preempt--; } };   // work done on behalf of the harness is not libhtp's

static void c07_request_bound(Exec *ex, htp_tx_t *tx);

static int tx_cb(int hook, htp_tx_t *tx) {
    TickFreeze tf;
    Exec *ex = g_ex;
    TxRec *r = on_event(ex, hook, tx);
    if (hook == HK_TRANSACTION_COMPLETE && r) {
        take_dump(ex, tx, *r, true);
        ex->res->st.tx_completed++;
        ex->res->live_after_tx.push_back(g_seams.live_bytes);
        if (getenv("VERIF_LIVE_HIST")) { long k = atol(getenv("VERIF_LIVE_HIST")); if ((long) ex->res->live_after_tx.size() == k || (long) ex->res->live_after_tx.size() == 4 * k) printf("LIVEHIST tx=%zu%s\n", ex->res->live_after_tx.size(), seams_live_histogram().c_str()); }
        ex->res->allocs_at_tx.push_back(g_seams.n_total);
    }
    if (hook == HK_REQUEST_COMPLETE && r) c07_request_bound(ex, tx);
    if ((hook == HK_REQUEST_COMPLETE || hook == HK_RESPONSE_COMPLETE) && r) {
        int side = hook == HK_REQUEST_COMPLETE ? 0 : 1;
        r->eob_before_complete[side] = r->eob[side];
        // C06 accounting half (all inputs): reported entity length == body bytes handed to callbacks
        // A gap in a request body that one of libhtp's own body parsers (multipart, urlencoded: body-data callbacks like any other,
        // run before the configuration-level ones) is consuming ends that parser - NULL data is its end signal - and it then refuses
        // the real end-of-body call with HTP_ERROR, so later callbacks do not see it: a body callback returning non-OK, i.e. the
        // same exemption as for the scripted callbacks.
        bool parser_refused_after_gap = side == 0 && r->body_gap[0] > 0 && (tx->request_mpartp != NULL || tx->request_urlenp_body != NULL);
        int64_t el = side == 0 ? tx->request_entity_len : tx->response_entity_len;
        if (!r->cb_nonok[side] && !r->cb_declined_body[side] && !parser_refused_after_gap && el != r->body_seen[side])
            violate(ex, "C06", side ? "C06.response_entity_len_vs_delivered" : "C06.request_entity_len_vs_delivered",
                    strfmt("tx#%d entity_len=%lld delivered=%lld", r->ordinal, (long long) el, (long long) r->body_seen[side]));
        // ... and a message whose body was delivered gets the end-of-body marker before its completion callback (bytes handed
        // over by the lenient "treat as body" paths belong to a message that has no body by its framing: outside the statement)
        if (!r->cb_nonok[side] && !r->cb_declined_body[side] && r->body_seen[side] > 0 && r->eob[side] == 0 && r->lenient_site[side].empty() && !parser_refused_after_gap)
            violate(ex, "C06", side ? "C06.response_no_end_of_body_marker" : "C06.request_no_end_of_body_marker",
                    strfmt("tx#%d delivered=%lld seq=%s", r->ordinal, (long long) r->body_seen[side], r->cbseq_full.c_str()));
    }
    int act = scripted_action(ex, hook);
    return apply_action(ex, hook, act, tx, r);
}

static void touch(Exec *ex, const unsigned char *data, size_t len) {
    // read every byte the library hands out, so ASan validates the whole region
    if (data && len) { uint64_t h = fnv_of(data, len); ex->log.u64(h); }
    ex->log.u64((uint64_t) len);
}

static int data_cb(int hook, htp_tx_data_t *d) {
    TickFreeze tf;
    Exec *ex = g_ex;
    htp_tx_t *tx = d ? d->tx : nullptr;
    bool marker = d && d->data == NULL && d->len == 0 && (hook == HK_REQUEST_BODY_DATA || hook == HK_RESPONSE_BODY_DATA || hook == HK_TX_REQUEST_BODY_DATA || hook == HK_TX_RESPONSE_BODY_DATA);
    TxRec *r = on_event(ex, hook, tx, marker);
    if (d) {
        touch(ex, d->data, d->len);
        if (r) {
            const unsigned char *p = d->data; size_t n = d->len;
            switch (hook) {
                case HK_REQUEST_BODY_DATA: case HK_RESPONSE_BODY_DATA: {
                    int s = hook == HK_REQUEST_BODY_DATA ? 0 : 1;
                    // ---- C07 bound half (all inputs): decompressed bytes delivered for one message never exceed
                    //      max(bomb limit, 2048 x compressed bytes) by more than one output buffer; layers within the limit
                    if (tx->connp && tx->connp->cfg) {
                        htp_cfg_t *cfg = tx->connp->cfg;
                        htp_decompressor_t *dc = s == 0 ? tx->connp->req_decompressor : tx->connp->out_decompressor;
                        bool decoding = s == 0 ? (tx->request_content_encoding > HTP_COMPRESSION_NONE) : (tx->response_content_encoding_processing > HTP_COMPRESSION_NONE);
                        if (decoding) {
                            int64_t el = s == 0 ? tx->request_entity_len : tx->response_entity_len, ml = s == 0 ? tx->request_message_len : tx->response_message_len;
                            int64_t lim = std::max<int64_t>((int64_t) cfg->compression_bomb_limit, 2048 * ml) + (int64_t) htp_verif_gzip_buf_size;
                            // (the request side adds the bytes of a call to request_message_len only after it has processed them, so inside
                            //  the callback the wire count lags by one call: that side is checked when the call returns and at REQUEST_COMPLETE)
                            if (s == 1 && el > lim) violate(ex, "C07", "C07.response_bomb_bound", strfmt("tx#%d delivered=%lld compressed=%lld limit=%d", r->ordinal, (long long) el, (long long) ml, (int) cfg->compression_bomb_limit));
                            // (an instance in pass-through mode applies no decoding: "LZMA decompression disabled", a decoder that gave up)
                            int layers = 0, lz = 0, chain = 0; for (htp_decompressor_t *q = dc; q && chain < 100; q = q->next) { chain++; if (q->passthrough) continue; layers++; if (((htp_decompressor_gzip_t *) q)->zlib_initialized == HTP_COMPRESSION_LZMA) lz++; }
                            if (s == 1 && cfg->response_decompression_layer_limit > 0 && layers > cfg->response_decompression_layer_limit && layers > 1)
                                violate(ex, "C07", "C07.too_many_layers", strfmt("tx#%d layers=%d limit=%d", r->ordinal, layers, cfg->response_decompression_layer_limit));
                            if (s == 1 && lz > cfg->response_lzma_layer_limit) violate(ex, "C07", "C07.too_many_lzma_layers", strfmt("tx#%d lzma layers=%d limit=%d", r->ordinal, lz, cfg->response_lzma_layer_limit));
                            if (layers > r->max_layers) r->max_layers = layers;
                        }
                    }
                    if (p == NULL && n == 0) r->eob[s]++;
                    else if (p == NULL) { r->body_gap[s] += (int64_t) n; r->body_seen[s] += (int64_t) n; }
                    else { r->body_seen[s] += (int64_t) n; if ((long) r->body[s].size() < ex->cap_body) r->body[s].append((const char *) p, n); }
                    break;
                }
                case HK_TX_REQUEST_BODY_DATA: if (p) r->txhook_body[0] += (int64_t) n; break;
                case HK_TX_RESPONSE_BODY_DATA: if (p) r->txhook_body[1] += (int64_t) n; break;
                case HK_REQUEST_HEADER_DATA: if (p) r->hdr_raw[0].append((const char *) p, n); break;
                case HK_RESPONSE_HEADER_DATA: if (p) r->hdr_raw[1].append((const char *) p, n); break;
                case HK_REQUEST_TRAILER_DATA: if (p) r->trl_raw[0].append((const char *) p, n); break;
                case HK_RESPONSE_TRAILER_DATA: if (p) r->trl_raw[1].append((const char *) p, n); break;
                default: break;
            }
        }
    }
    int act = scripted_action(ex, hook);
    return apply_action(ex, hook, act, tx, r);
}

static int file_cb(htp_file_data_t *d) {
    TickFreeze tf;
    Exec *ex = g_ex;
    ex->res->st.cbs++;
    if (g_cur_call) g_cur_call->cbs++;
    ex->log.byte(HK_REQUEST_FILE_DATA);
    ex->beh.byte(0x80 | HK_REQUEST_FILE_DATA);
    if (d) {
        touch(ex, d->data, d->len);
        if (d->file) { if (d->file->filename) { Bytes fn = bstr_bytes(d->file->filename); ex->log.str(fn); } ex->log.u64((uint64_t) d->file->len); }
        // attribute to the in-flight request transaction of the connection being driven
        ConnState *cs = g_cur_conn;
        if (cs && cs->connp && cs->connp->in_tx && d->data) { TxRec &r = rec_for(ex, cs->connp->in_tx); r.file_data.append((const char *) d->data, d->len); r.cbseq_full.push_back('g'); }
    }
    int act = scripted_action(ex, HK_REQUEST_FILE_DATA);
    if (act == CB_REG_TX_HOOKS || act == CB_DESTROY_DONE_TX) act = CB_OK;
    // the file-data hook runs inside the request body-data chain (PUT bodies, multipart file parts): a failure returned here is
    // a body callback of the in-flight request returning non-OK, and is recorded as such
    TxRec *fr = nullptr; { ConnState *cs = g_cur_conn; if (cs && cs->connp && cs->connp->in_tx && act != CB_OK) fr = &rec_for(ex, cs->connp->in_tx); }
    return apply_action(ex, HK_REQUEST_FILE_DATA, act, nullptr, fr);
}

static int log_cb(htp_log_t *l) {
    TickFreeze tf;
    Exec *ex = g_ex;
    if (l) {
        if (l->msg) { size_t n = strlen(l->msg); (void) fnv_of(l->msg, n); }   // touch
        if (l->connp) { ConnState *cs = (ConnState *) htp_connp_get_user_data(l->connp); if (cs) ex->res->conns[cs->idx].log_count++; }
    }
    int act = scripted_action(ex, HK_LOG);
    if (act == CB_REG_TX_HOOKS || act == CB_DESTROY_DONE_TX) act = CB_OK;
    return apply_action(ex, HK_LOG, act, nullptr, nullptr);
}

#define TXCB(name, id) static int name(htp_tx_t *tx) { return tx_cb(id, tx); }
#define DCB(name, id) static int name(htp_tx_data_t *d) { return data_cb(id, d); }
TXCB(cb_request_start, HK_REQUEST_START) TXCB(cb_request_line, HK_REQUEST_LINE) TXCB(cb_request_uri_normalize, HK_REQUEST_URI_NORMALIZE)
TXCB(cb_request_headers, HK_REQUEST_HEADERS) TXCB(cb_request_trailer, HK_REQUEST_TRAILER) TXCB(cb_request_complete, HK_REQUEST_COMPLETE)
TXCB(cb_response_start, HK_RESPONSE_START) TXCB(cb_response_line, HK_RESPONSE_LINE) TXCB(cb_response_headers, HK_RESPONSE_HEADERS)
TXCB(cb_response_trailer, HK_RESPONSE_TRAILER) TXCB(cb_response_complete, HK_RESPONSE_COMPLETE) TXCB(cb_transaction_complete, HK_TRANSACTION_COMPLETE)
DCB(cb_request_header_data, HK_REQUEST_HEADER_DATA) DCB(cb_request_body_data, HK_REQUEST_BODY_DATA) DCB(cb_request_trailer_data, HK_REQUEST_TRAILER_DATA)
DCB(cb_response_header_data, HK_RESPONSE_HEADER_DATA) DCB(cb_response_body_data, HK_RESPONSE_BODY_DATA) DCB(cb_response_trailer_data, HK_RESPONSE_TRAILER_DATA)
int cb_tx_req_body(htp_tx_data_t *d) { return data_cb(HK_TX_REQUEST_BODY_DATA, d); }
int cb_tx_res_body(htp_tx_data_t *d) { return data_cb(HK_TX_RESPONSE_BODY_DATA, d); }

// ------------------------------------------------------------------------------------------------
// configuration

static htp_cfg_t *build_cfg(const Plan &p) {
    const Cfg &c = p.cfg;
    htp_cfg_t *cfg = htp_config_create();
    if (!cfg) return nullptr;
    htp_config_set_server_personality(cfg, (enum htp_server_personality_t) c.get("personality", HTP_SERVER_IDS));
    if (c.has("field_hard")) htp_config_set_field_limits(cfg, (size_t) c.get("field_soft", 9000), (size_t) c.get("field_hard", 18000));
    if (c.has("max_tx")) htp_config_set_max_tx(cfg, (uint32_t) c.get("max_tx", 0));
    if (c.has("hdr_limit")) htp_config_set_number_headers_limit(cfg, (uint32_t) c.get("hdr_limit", 1024));
    if (c.has("log_level")) htp_config_set_log_level(cfg, (enum htp_log_level_t) c.get("log_level", HTP_LOG_NOTICE));
    if (c.has("allow_space_uri")) htp_config_set_allow_space_uri(cfg, (int) c.get("allow_space_uri", 0));
    htp_config_set_tx_auto_destroy(cfg, (int) c.get("auto_destroy", 0));
    htp_config_set_response_decompression(cfg, (int) c.get("res_decomp", 1));
    htp_config_set_request_decompression(cfg, (int) c.get("req_decomp", 0));
    if (c.has("bomb_limit")) htp_config_set_compression_bomb_limit(cfg, (size_t) c.get("bomb_limit", 1048576));
    if (c.has("time_limit")) htp_config_set_compression_time_limit(cfg, (size_t) c.get("time_limit", 100000));
    if (c.has("lzma_memlimit")) htp_config_set_lzma_memlimit(cfg, (size_t) c.get("lzma_memlimit", 1048576));
    if (c.has("lzma_layers")) htp_config_set_lzma_layers(cfg, (int) c.get("lzma_layers", 1));
    if (c.has("decomp_layers")) htp_config_set_response_decompression_layer_limit(cfg, (int) c.get("decomp_layers", 2));
    htp_config_set_parse_request_cookies(cfg, (int) c.get("cookies", 1));
    htp_config_set_parse_request_auth(cfg, (int) c.get("auth", 1));
    if (c.get("urlenc", 1)) htp_config_register_urlencoded_parser(cfg);
    if (c.get("mpart", 1)) htp_config_register_multipart_parser(cfg);
    if (c.get("extract_files", 0)) { htp_config_set_tmpdir(cfg, (char *) "/simtmp"); htp_config_set_extract_request_files(cfg, 1, (int) c.get("extract_limit", -1)); }
    // decoder switches (urlencoded context): C15 and swarm
    if (c.has("url_invalid")) htp_config_set_url_encoding_invalid_handling(cfg, HTP_DECODER_URLENCODED, (enum htp_url_encoding_handling_t) c.get("url_invalid", 0));
    if (c.has("plusspace")) htp_config_set_plusspace_decode(cfg, HTP_DECODER_URLENCODED, (int) c.get("plusspace", 1));
    if (c.has("u_decode")) htp_config_set_u_encoding_decode(cfg, HTP_DECODER_URLENCODED, (int) c.get("u_decode", 0));
    if (c.has("nul_enc_term")) htp_config_set_nul_encoded_terminates(cfg, HTP_DECODER_URLENCODED, (int) c.get("nul_enc_term", 0));
    if (c.has("nul_raw_term")) htp_config_set_nul_raw_terminates(cfg, HTP_DECODER_URLENCODED, (int) c.get("nul_raw_term", 0));
    if (c.get("u_map", 0)) { htp_config_set_bestfit_map(cfg, HTP_DECODER_URLENCODED, (void *) SIM_BESTFIT); htp_config_set_bestfit_replacement_byte(cfg, HTP_DECODER_URLENCODED, SIM_BESTFIT_DEFAULT); }
    if (c.has("path_url_invalid")) htp_config_set_url_encoding_invalid_handling(cfg, HTP_DECODER_URL_PATH, (enum htp_url_encoding_handling_t) c.get("path_url_invalid", 0));

    // decoder swarm: every remaining decoder switch drawn from one integer (path context; urlencoded context on request)
    if (c.has("dec_swarm")) {
        Rng r((uint64_t) c.get("dec_swarm", 0) * 0x9E3779B97F4A7C15ULL + 17);
        static unsigned char BESTFIT[] = {0x01, 0x00, 'A', 0xff, 0x0f, '/', 0x22, 0x15, '/', 0xff, 0x3c, '\\', 0xff, 0x21, 'a', 0x00, 0xe9, 'e', 0, 0, 0};
        static const enum htp_unwanted_t UNW[] = {HTP_UNWANTED_IGNORE, HTP_UNWANTED_400, HTP_UNWANTED_404};
        int nctx = c.get("dec_swarm_urlenc", 0) ? 2 : 1;
        for (int i = 0; i < nctx; i++) {
            enum htp_decoder_ctx_t ctx = i == 0 ? HTP_DECODER_URL_PATH : HTP_DECODER_URLENCODED;
            if (r.coin()) htp_config_set_backslash_convert_slashes(cfg, ctx, (int) r.below(2));
            if (r.coin()) htp_config_set_bestfit_map(cfg, ctx, BESTFIT);
            if (r.coin()) htp_config_set_bestfit_replacement_byte(cfg, ctx, (int) r.below(256));
            if (r.coin()) htp_config_set_control_chars_unwanted(cfg, ctx, UNW[r.below(3)]);
            if (r.coin()) htp_config_set_convert_lowercase(cfg, ctx, (int) r.below(2));
            if (r.coin()) htp_config_set_nul_encoded_terminates(cfg, ctx, (int) r.below(2));
            if (r.coin()) htp_config_set_nul_encoded_unwanted(cfg, ctx, UNW[r.below(3)]);
            if (r.coin()) htp_config_set_nul_raw_terminates(cfg, ctx, (int) r.below(2));
            if (r.coin()) htp_config_set_nul_raw_unwanted(cfg, ctx, UNW[r.below(3)]);
            if (r.coin()) htp_config_set_path_separators_compress(cfg, ctx, (int) r.below(2));
            if (r.coin()) htp_config_set_path_separators_decode(cfg, ctx, (int) r.below(2));
            if (r.coin()) htp_config_set_path_separators_encoded_unwanted(cfg, ctx, UNW[r.below(3)]);
            if (r.coin()) htp_config_set_plusspace_decode(cfg, ctx, (int) r.below(2));
            if (r.coin()) htp_config_set_u_encoding_decode(cfg, ctx, (int) r.below(2));
            if (r.coin()) htp_config_set_u_encoding_unwanted(cfg, ctx, UNW[r.below(3)]);
            if (r.coin()) htp_config_set_url_encoding_invalid_handling(cfg, ctx, (enum htp_url_encoding_handling_t) r.below(3));
            if (r.coin()) htp_config_set_url_encoding_invalid_unwanted(cfg, ctx, UNW[r.below(3)]);
            if (r.coin()) htp_config_set_utf8_convert_bestfit(cfg, ctx, (int) r.below(2));
            if (r.coin()) htp_config_set_utf8_invalid_unwanted(cfg, ctx, UNW[r.below(3)]);
        }
        if (r.coin()) htp_config_set_requestline_leading_whitespace_unwanted(cfg, HTP_DECODER_DEFAULTS, UNW[r.below(3)]);
    }

    // monitors: every hook, always
    htp_config_register_request_start(cfg, cb_request_start);
    htp_config_register_request_line(cfg, cb_request_line);
    htp_config_register_request_uri_normalize(cfg, cb_request_uri_normalize);
    htp_config_register_request_header_data(cfg, cb_request_header_data);
    htp_config_register_request_headers(cfg, cb_request_headers);
    htp_config_register_request_body_data(cfg, cb_request_body_data);
    htp_config_register_request_file_data(cfg, file_cb);
    htp_config_register_request_trailer_data(cfg, cb_request_trailer_data);
    htp_config_register_request_trailer(cfg, cb_request_trailer);
    htp_config_register_request_complete(cfg, cb_request_complete);
    htp_config_register_response_start(cfg, cb_response_start);
    htp_config_register_response_line(cfg, cb_response_line);
    htp_config_register_response_header_data(cfg, cb_response_header_data);
    htp_config_register_response_headers(cfg, cb_response_headers);
    htp_config_register_response_body_data(cfg, cb_response_body_data);
    htp_config_register_response_trailer_data(cfg, cb_response_trailer_data);
    htp_config_register_response_trailer(cfg, cb_response_trailer);
    htp_config_register_response_complete(cfg, cb_response_complete);
    htp_config_register_transaction_complete(cfg, cb_transaction_complete);
    htp_config_register_log(cfg, log_cb);
    if (c.get("cfg_copy", 0)) {   // what an IDS does per server: work on a deep copy, the template is destroyed
        htp_cfg_t *copy = htp_config_copy(cfg);
        if (copy) { htp_config_destroy(cfg); cfg = copy; }
    }
    return cfg;
}

// ------------------------------------------------------------------------------------------------
// the IDS stub driver

static const int RC_OK_SET[] = {HTP_STREAM_DATA, HTP_STREAM_DATA_OTHER, HTP_STREAM_ERROR, HTP_STREAM_STOP, HTP_STREAM_TUNNEL, HTP_STREAM_CLOSED};

struct ApiGuard {   // everything libhtp allocates inside is tracked and may be made to fail
    ApiGuard(const char *phase) { seams_set_phase(phase); g_seams.n_in_op = 0; g_seams.call_start_ticks = g_seams.ticks; g_seams.track = true; }
    ~ApiGuard() { g_seams.track = false; seams_set_phase("harness"); }
};

static long buffered_for(htp_connp_t *cp, int dir) {
    if (dir == 0) return (long) cp->in_buf_size + (cp->in_header ? (long) bstr_len(cp->in_header) : 0);
    return (long) cp->out_buf_size + (cp->out_header ? (long) bstr_len(cp->out_header) : 0);
}

// C07 bound, request side, evaluated where request_message_len is up to date
static void c07_request_bound(Exec *ex, htp_tx_t *tx) {
    if (!tx || !tx->connp || !tx->connp->cfg || tx->request_content_encoding <= HTP_COMPRESSION_NONE) return;
    int64_t el = tx->request_entity_len, ml = tx->request_message_len;
    int64_t lim = std::max<int64_t>((int64_t) tx->connp->cfg->compression_bomb_limit, 2048 * ml) + (int64_t) htp_verif_gzip_buf_size;
    if (el > lim) { TxRec &r = rec_for(ex, tx); violate(ex, "C07", "C07.request_bomb_bound", strfmt("tx#%d delivered=%lld compressed=%lld limit=%d", r.ordinal, (long long) el, (long long) ml, (int) tx->connp->cfg->compression_bomb_limit)); }
}

static void per_call_invariants(Exec *ex, ConnState &c, int dir, const CallRec &cr, bool is_gap, bool sticky_before, int sticky_code, bool after_close) {
    if (dir == 0 && c.connp->in_tx) c07_request_bound(ex, c.connp->in_tx);
    RunResult &R = *ex->res;
    htp_connp_t *cp = c.connp;
    // ---- C09
    bool in_set = false;
    for (int v : RC_OK_SET) if (cr.rc == v) in_set = true;
    if (!in_set) violate(ex, "C09", "C09.rc_undocumented", strfmt("dir=%d rc=%d", dir, cr.rc));
    if (!is_gap && cr.len > 0) {
        if (cr.rc == HTP_STREAM_DATA && cr.consumed != cr.len)
            violate(ex, "C09", "C09.data_but_partial", strfmt("dir=%d len=%ld consumed=%ld state=%s", dir, cr.len, cr.consumed, state_name(dir, dir ? cr.out_state : cr.in_state)));
        if (cr.rc == HTP_STREAM_DATA_OTHER && !(cr.consumed < cr.len))
            violate(ex, "C09", "C09.data_other_but_full", strfmt("dir=%d len=%ld consumed=%ld", dir, cr.len, cr.consumed));
    }
    // the consumed count is only meaningful for DATA / DATA_OTHER (after ERROR/STOP/TUNNEL/CLOSED it may be stale)
    if ((cr.rc == HTP_STREAM_DATA || cr.rc == HTP_STREAM_DATA_OTHER) && (cr.consumed > cr.len || cr.consumed < 0))
        violate(ex, "C09", "C09.consumed_out_of_range", strfmt("dir=%d len=%ld consumed=%ld rc=%d", dir, cr.len, cr.consumed, cr.rc));
    if (sticky_before && !after_close) {
        if (cr.rc != sticky_code) violate(ex, "C09", "C09.sticky_state_lost", strfmt("dir=%d was=%d now=%d", dir, sticky_code, cr.rc));
        if (cr.cbs > 0) violate(ex, "C09", "C09.callbacks_after_sticky", strfmt("dir=%d code=%d cbs=%d", dir, sticky_code, cr.cbs));
        R.st.sticky_followups[dir]++;
    }
    if (cp->conn) {
        int64_t counter = dir == 0 ? cp->conn->in_data_counter : cp->conn->out_data_counter;
        if (counter != R.conns[c.idx].offered[dir])
            violate(ex, "C09", "C09.byte_counter", strfmt("dir=%d counter=%lld offered=%lld", dir, (long long) counter, (long long) R.conns[c.idx].offered[dir]));
    }
    // ---- C10 (retention invariants)
    size_t hard = ex->cfg->field_limit_hard;
    // "logging off": with the log level at NONE no record is kept on the connection (the list lives as long as the connection
    // does, so anything kept there grows with the traffic), and with any level every kept record is at or below that level
    if (cp->cfg && cp->conn && cp->conn->messages) {
        size_t nm = htp_list_size(cp->conn->messages);
        if (cp->cfg->log_level == HTP_LOG_NONE && nm > 0) violate(ex, "C10", "C10.log_record_kept_with_logging_off", strfmt("%zu records on the connection", nm));
        else if (nm > 0) { htp_log_t *l = (htp_log_t *) htp_list_get(cp->conn->messages, nm - 1); if (l && ((int) l->level > (int) cp->cfg->log_level || (int) l->level <= 0)) violate(ex, "C10", "C10.log_record_outside_log_level", strfmt("level %d kept, configured level %d", (int) l->level, (int) cp->cfg->log_level)); }
    }
    if (cp->in_buf_size > hard) violate(ex, "C10", "C10.in_buf_over_hard_limit", strfmt("in_buf_size=%zu hard=%zu", cp->in_buf_size, hard));
    if (cp->out_buf_size > hard) violate(ex, "C10", "C10.out_buf_over_hard_limit", strfmt("out_buf_size=%zu hard=%zu", cp->out_buf_size, hard));
    // while a line is being buffered, the pending (possibly folded) header it may belong to counts too: the check made at buffering
    // time is in_buf + new piece + pending header <= hard limit, and the pending header does not change until the line is complete
    if (cp->in_buf_size > 0 && cp->in_header && cp->in_buf_size + bstr_len(cp->in_header) > hard)
        violate(ex, "C10", "C10.in_buf_plus_pending_header_over_hard_limit", strfmt("in_buf_size=%zu pending header=%zu hard=%zu", cp->in_buf_size, bstr_len(cp->in_header), hard));
    if (cp->out_buf_size > 0 && cp->out_header && cp->out_buf_size + bstr_len(cp->out_header) > hard)
        violate(ex, "C10", "C10.out_buf_plus_pending_header_over_hard_limit", strfmt("out_buf_size=%zu pending header=%zu hard=%zu", cp->out_buf_size, bstr_len(cp->out_header), hard));
    if (cp->in_header && bstr_len(cp->in_header) >= HTP_MAX_HEADER_FOLDED + hard)
        violate(ex, "C10", "C10.in_header_over_cap", strfmt("len=%zu", bstr_len(cp->in_header)));
    if (cp->out_header && bstr_len(cp->out_header) >= HTP_MAX_HEADER_FOLDED + hard)
        violate(ex, "C10", "C10.out_header_over_cap", strfmt("len=%zu", bstr_len(cp->out_header)));
    // the cap on the number of header fields of one message (request fields and trailers share a table, so do the response's)
    for (int s2 = 0; s2 < 2; s2++) {
        htp_tx_t *t2 = s2 == 0 ? cp->in_tx : cp->out_tx; if (!t2) continue;
        htp_table_t *tb = s2 == 0 ? t2->request_headers : t2->response_headers;
        if (tb && htp_table_size(tb) > (size_t) ex->cfg->number_headers_limit) violate(ex, "C10", s2 ? "C10.response_header_count_over_limit" : "C10.request_header_count_over_limit", strfmt("fields=%zu limit=%u", htp_table_size(tb), ex->cfg->number_headers_limit));
    }
    if (ex->cfg->max_tx > 0 && cp->conn && cp->conn->transactions) {
        size_t n = htp_list_size(cp->conn->transactions);
        if (n > (size_t) ex->cfg->max_tx + 1) violate(ex, "C10", "C10.tx_count_over_max", strfmt("n=%zu max_tx=%u", n, ex->cfg->max_tx));
    }
    // ---- C06 accounting (all inputs): message length never decreases, never exceeds what was offered since the tx started
    for (int s = 0; s < 2; s++) {
        htp_tx_t *tx = s == 0 ? cp->in_tx : cp->out_tx;
        if (!tx) continue;
        TxRec &r = rec_for(ex, tx);
        int64_t ml = s == 0 ? tx->request_message_len : tx->response_message_len;
        if (ml < r.last_msglen[s]) violate(ex, "C06", "C06.message_len_decreased", strfmt("side=%d %lld->%lld", s, (long long) r.last_msglen[s], (long long) ml));
        r.last_msglen[s] = ml;
        int64_t avail = R.conns[c.idx].offered[s] - r.offered_at_start[s] + (int64_t) hard + 2;
        if (ml > avail) violate(ex, "C06", "C06.message_len_exceeds_offered", strfmt("side=%d msglen=%lld offered_since_start=%lld", s, (long long) ml, (long long) (avail - (int64_t) hard - 2)));
    }
}

// one API data call; returns rc; consumed through out-param
static int do_call(Exec *ex, ConnState &c, int dir, const Chunk &ch, long &consumed) {
    RunResult &R = *ex->res;
    htp_connp_t *cp = c.connp;
    long len = ch.len();
    unsigned char *buf = nullptr;
    if (!ch.gap && len > 0) { buf = (unsigned char *) malloc((size_t) len); memcpy(buf, ch.data.data(), (size_t) len); }
    CallRec cr; memset(&cr, 0, sizeof cr);
    cr.conn = c.idx; cr.kind = dir == 0 ? (ch.gap ? 'q' : 'Q') : (ch.gap ? 's' : 'S'); cr.len = len;
    cr.in_state = state_id_in(cp); cr.out_state = state_id_out(cp);
    cr.in_status_before = cp->in_status; cr.out_status_before = cp->out_status;
    cr.buffered_before = buffered_for(cp, dir);
    { htp_tx_t *cur = dir == 0 ? cp->in_tx : cp->out_tx; cr.msg_bytes_before = 0; if (cur) { TxRec &tr = rec_for(ex, cur); cr.msg_bytes_before = (long) (R.conns[c.idx].offered[dir] - tr.offered_at_start[dir]); } }
    int status_before = dir == 0 ? cp->in_status : cp->out_status;
    bool sticky_before = R.conns[c.idx].sticky[dir] != 0;
    int sticky_code = R.conns[c.idx].sticky[dir];
    // bytes are counted as offered when the stream is live (entry guards short-circuit STOP/ERROR and zero-length calls)
    bool counted = !(status_before == HTP_STREAM_STOP || status_before == HTP_STREAM_ERROR) && !(len == 0 && status_before != HTP_STREAM_CLOSED);
    if (dir == 0 && cp->in_tx == NULL && cp->in_state != htp_connp_REQ_IDLE) counted = false;
    if (dir == 1 && cp->out_tx == NULL && cp->out_state != htp_connp_RES_IDLE) counted = false;
    R.conns[c.idx].offered_before_call[0] = R.conns[c.idx].offered[0]; R.conns[c.idx].offered_before_call[1] = R.conns[c.idx].offered[1];
    if (counted) R.conns[c.idx].offered[dir] += len;
    R.st.state_at_call[dir][dir == 0 ? cr.in_state : cr.out_state]++;
    struct timeval tv; tv.tv_sec = (time_t) (g_seams.now_us / 1000000); tv.tv_usec = (suseconds_t) (g_seams.now_us % 1000000);
    g_seams.now_us += 1000;
    uint64_t t0 = g_seams.ticks, a0 = g_seams.n_total;
    g_cur_call = &cr;
    g_cur_conn = &c;
    int rc;
    {
        g_seams.owner = c.idx + 1; g_in_data_call = true;
        ApiGuard g(dir == 0 ? "htp_connp_req_data" : "htp_connp_res_data");
        const htp_time_t *ts = ex->null_ts ? nullptr : &tv;   // the timestamp is optional in every call that takes one
        if (dir == 0) { rc = htp_connp_req_data(cp, ts, buf, (size_t) len); consumed = (long) htp_connp_req_data_consumed(cp); }
        else { rc = htp_connp_res_data(cp, ts, buf, (size_t) len); consumed = (long) htp_connp_res_data_consumed(cp); }
    }
    g_in_data_call = false;
    g_cur_call = nullptr;
    { htp_tx_t *tx = dir == 0 ? cp->in_tx : cp->out_tx; if (tx) rec_for(ex, tx).msglen_at_call_end[dir] = (long) (dir == 0 ? tx->request_message_len : tx->response_message_len); }
    // the last error record is handed out by a public getter: read it the way a caller would (a dangling record is a C01/C18 matter)
    { htp_log_t *le = htp_connp_get_last_error(cp); if (le) { if (le->msg) touch(ex, (const unsigned char *) le->msg, strlen(le->msg)); if (le->file) touch(ex, (const unsigned char *) le->file, strlen(le->file)); } }
    if (buf) free(buf);   // the caller's chunk does not outlive the call: a later access is a use-after-free
    cr.rc = rc; cr.consumed = consumed; cr.ticks = g_seams.ticks - t0; cr.allocs = g_seams.n_total - a0;
    cr.conn_flags_after = cp->conn ? (unsigned) cp->conn->flags : 0; cr.ntx_after = cp->conn && cp->conn->transactions ? (int) htp_list_size(cp->conn->transactions) : -1; cr.next_tx_after = (int) cp->out_next_tx_index;
    R.st.calls++;
    if (cr.cbfault_hook) {
        // return codes: HTP_STOP / HTP_ERROR from a callback whose result the state machine hands straight up (start, line, headers,
        // trailer, response-complete hooks: htp_core.h, "returning HTP_STOP from a connection callback indicates that LibHTP should
        // stop following that particular connection") makes this very call report STOP or ERROR. Body-data and raw-data receivers,
        // the log hook and the completion hooks run from finalisation are not in the list: their results are deliberately dropped
        // in places (decompression, end-of-chunk flushes).
        int h = cr.cbfault_hook - 1;
        bool propagating = h == HK_REQUEST_LINE || h == HK_REQUEST_URI_NORMALIZE || h == HK_REQUEST_HEADERS || h == HK_REQUEST_TRAILER || h == HK_RESPONSE_START || h == HK_RESPONSE_LINE
                           || h == HK_RESPONSE_HEADERS || h == HK_RESPONSE_TRAILER || h == HK_RESPONSE_COMPLETE;
        if (propagating && HOOKS[h].side == dir && rc != HTP_STREAM_STOP && rc != HTP_STREAM_ERROR)
            violate(ex, "C09", strfmt("C09.callback_failure_not_reported.%s", hook_names[h]), strfmt("dir=%d callback returned %s, call returned %d", dir, cr.cbfault_ret == HTP_STOP ? "HTP_STOP" : "HTP_ERROR", rc));
        R.probes[strfmt("cbfault.%s.%s", propagating ? "propagating_hook" : "other_hook", (rc == HTP_STREAM_STOP || rc == HTP_STREAM_ERROR) ? "reported" : "not_reported")]++;
    }
    if (rc >= 0 && rc < 10) R.st.rc_count[dir][rc]++;
    if (ch.gap) { R.st.gaps++; if (rc == HTP_STREAM_DATA) R.st.gaps_accepted++; }
    ex->log.byte((unsigned char) cr.kind); ex->log.u64((uint64_t) len); ex->log.u64((uint64_t) (unsigned) rc); ex->log.u64((uint64_t) consumed);
    ex->beh.byte((unsigned char) dir); ex->beh.byte((unsigned char) (dir == 0 ? cr.in_state : cr.out_state)); ex->beh.byte((unsigned char) rc);
    bool after_close = false;   // STOP and ERROR stay sticky across close/req_close
    per_call_invariants(ex, c, dir, cr, ch.gap, sticky_before, sticky_code, after_close);
    if (!sticky_before && (rc == HTP_STREAM_ERROR || rc == HTP_STREAM_STOP)) R.conns[c.idx].sticky[dir] = rc;
    if (rc == HTP_STREAM_TUNNEL) {
        if (!R.conns[c.idx].tunnel_seen[0] && !R.conns[c.idx].tunnel_seen[1]) R.conns[c.idx].tx_count_at_tunnel = (int) R.conns[c.idx].txs.size();
        R.conns[c.idx].tunnel_seen[dir] = true;
    }
    if (rc == HTP_STREAM_DATA_OTHER) R.st.data_other[dir]++;
    if (R.calls.size() < 100000) R.calls.push_back(cr);
    return rc;
}

static void feed(Exec *ex, ConnState &c, int dir, Chunk ch) {
    long consumed = 0;
    int rc = do_call(ex, c, dir, ch, consumed);
    ConnRes &cres = ex->res->conns[c.idx];
    long took = ch.len();
    if (rc == HTP_STREAM_DATA_OTHER && consumed < ch.len()) {
        // 2.2.1 remember how much was consumed, 2.2.2 suspend this direction
        took = consumed < 0 ? 0 : consumed;
        Chunk rest;
        if (ch.gap) { rest.gap = true; rest.gap_len = ch.len() - took; }
        else rest.data = ch.data.substr((size_t) took);
        c.queue[dir].push_front(rest);
        c.suspended[dir] = true;
    }
    if (dir == 0) cres.req_consumed_total += took; else cres.res_consumed_total += took;
}

// pops the remainder and feeds it; if the direction is released, drains what queued up behind it
static void resume(Exec *ex, ConnState &c, int d) {
    ex->res->st.retries++;
    c.suspended[d] = false;
    while (!c.queue[d].empty() && !c.suspended[d] && c.alive) {
        Chunk ch = c.queue[d].front(); c.queue[d].pop_front();
        feed(ex, c, d, ch);
    }
}

static void pump(Exec *ex, ConnState &c, int just_fed) {
    int x = just_fed;
    const int BUDGET = 64;
    int step = 0;
    for (; step < BUDGET && c.alive; step++) {
        int d = 1 - x;
        if (!c.suspended[d]) break;
        resume(ex, c, d);
        x = d;
    }
    if (step >= BUDGET && c.suspended[0] && c.suspended[1])
        violate(ex, "C09", "C09.endless_data_other_pingpong", strfmt("conn=%d after %d hand-overs", c.idx, step));
}

static void offer(Exec *ex, ConnState &c, int dir, const Chunk &ch) {
    if (c.suspended[dir]) { c.queue[dir].push_back(ch); return; }   // the IDS keeps reassembled data until the parser takes it
    feed(ex, c, dir, ch);
    pump(ex, c, dir);
}

static void dispose_completed(Exec *ex, ConnState &c, bool freed) {
    htp_conn_t *conn = c.connp->conn;
    if (!conn || !conn->transactions) return;
    size_t n = htp_list_size(conn->transactions);
    for (size_t i = 0; i < n; i++) {
        htp_tx_t *t = (htp_tx_t *) htp_list_get(conn->transactions, i);
        if (!t) continue;
        if (t == c.connp->in_tx || t == c.connp->out_tx) continue;
        if (htp_tx_is_complete(t) != 1) continue;
        TxRec &r = rec_for(ex, t);
        if (!r.have_dump) take_dump(ex, t, r, false);
        g_seams.owner = c.idx + 1;
        ApiGuard g("htp_tx_destroy");
        if (htp_tx_destroy(t) == HTP_OK) { r.alive = false; r.tx_ptr = nullptr; ex->res->st.disposals++; }
    }
    if (freed) { ApiGuard g("htp_connp_tx_freed"); ex->res->st.tx_freed += htp_connp_tx_freed(c.connp); }
}

static void final_dumps(Exec *ex, ConnState &c) {
    htp_conn_t *conn = c.connp->conn;
    ConnRes &cres = ex->res->conns[c.idx];
    cres.final_in_status = c.connp->in_status; cres.final_out_status = c.connp->out_status;
    if (!conn) return;
    cres.conn_flags = conn->flags;
    if (!conn->transactions) return;
    size_t n = htp_list_size(conn->transactions);
    cres.final_tx_list_size = (long) n;
    for (size_t i = 0; i < n; i++) {
        htp_tx_t *t = (htp_tx_t *) htp_list_get(conn->transactions, i);
        if (!t) continue;
        TxRec &r = rec_for(ex, t);
        if (!r.dump_at_complete) take_dump(ex, t, r, false);
        // completion happens once - not never: a transaction whose REQUEST_COMPLETE and RESPONSE_COMPLETE were both delivered has had
        // its TRANSACTION_COMPLETE by the time the parser is destroyed (bounded liveness; runs in which a scripted callback returned
        // STOP / ERROR are exempt: stopping a stream legitimately leaves transactions unfinished)
        if (r.n_complete[0] == 1 && r.n_complete[1] == 1 && r.n_complete[2] == 0) {
            if (ex->any_cb_failure) ex->res->probes["c05.both_complete_no_tx_complete.after_cb_failure"]++;
            else violate(ex, "C05", "C05.transaction_complete_never_delivered", strfmt("tx#%d seq=%s", r.ordinal, r.cbseq_full.c_str()));
        }
    }
}

static void destroy_conn(Exec *ex, ConnState &c, bool abort_) {
    if (!c.alive) return;
    RunResult &R = *ex->res;
    if (abort_) { R.st.aborts++; R.st.state_at_abort[0][state_id_in(c.connp)]++; R.st.state_at_abort[1][state_id_out(c.connp)]++; }
    final_dumps(ex, c);
    for (int o : R.conns[c.idx].txs) { R.txs[o].alive = false; R.txs[o].tx_ptr = nullptr; }
    g_cur_conn = &c;
    g_seams.owner = c.idx + 1;
    { ApiGuard g("htp_connp_destroy_all"); htp_connp_destroy_all(c.connp); }
    c.connp = nullptr; c.alive = false;
    R.conns[c.idx].destroyed = true;
}

static uint64_t cfg_hash(htp_cfg_t *cfg) {
    // the configuration structure and its hook lists: must not change while parsing (C19)
    Fnv f; f.bytes(cfg, sizeof *cfg);
    htp_hook_t **hooks[] = {&cfg->hook_request_start, &cfg->hook_request_line, &cfg->hook_request_uri_normalize, &cfg->hook_request_header_data,
        &cfg->hook_request_headers, &cfg->hook_request_body_data, &cfg->hook_request_file_data, &cfg->hook_request_trailer_data,
        &cfg->hook_request_trailer, &cfg->hook_request_complete, &cfg->hook_response_start, &cfg->hook_response_line,
        &cfg->hook_response_header_data, &cfg->hook_response_headers, &cfg->hook_response_body_data, &cfg->hook_response_trailer_data,
        &cfg->hook_response_trailer, &cfg->hook_response_complete, &cfg->hook_transaction_complete, &cfg->hook_log};
    for (auto hp : hooks) {
        htp_hook_t *h = *hp;
        if (!h || !h->callbacks) { f.byte(0); continue; }
        size_t n = htp_list_size(h->callbacks);
        f.u64(n);
        for (size_t i = 0; i < n; i++) { htp_callback_t *cb = (htp_callback_t *) htp_list_get(h->callbacks, i); if (cb) f.bytes(cb, sizeof *cb); }
    }
    return f.h;
}

void exec_op(Exec *ex, const Op &op);

static bool open_conn(Exec *ex, ConnState &c) {
    g_seams.owner = c.idx + 1;
    { ApiGuard g("htp_connp_create"); c.connp = htp_connp_create(ex->cfg); }
    if (!c.connp) return false;
    htp_connp_set_user_data(c.connp, &c);
    c.alive = true;
    return true;
}

static void api_open(Exec *ex, ConnState &c) {
    (void) ex;
    struct timeval tv; tv.tv_sec = (time_t) (g_seams.now_us / 1000000); tv.tv_usec = 0;
    g_cur_conn = &c; g_seams.owner = c.idx + 1;
    ApiGuard g("htp_connp_open");
    htp_connp_open(c.connp, ex->null_ts ? nullptr : "192.168.2.3", 32768 + c.idx, ex->null_ts ? nullptr : "192.168.2.2", 80, ex->null_ts ? nullptr : &tv);
    c.opened = true;
}

void exec_op(Exec *ex, const Op &op) {
    RunResult &R = *ex->res;
    if (op.conn < 0 || (size_t) op.conn >= ex->conns.size()) return;
    ConnState &c = ex->conns[op.conn];
    if (!c.alive) return;
    const ConnPlan &cp = ex->plan->conns[op.conn];
    if (op.af) { g_seams.fail_at = g_seams.n_total + (uint64_t) op.af; g_seams.fail_sustained = false; }
    switch (op.kind) {
        case 'O': case 'R': if (op.kind == 'R') R.st.reopen++; api_open(ex, c); break;
        case 'Q': case 'S': {
            int dir = op.kind == 'Q' ? 0 : 1;
            size_t avail = cp.stream[dir].size() - std::min(cp.stream[dir].size(), c.cursor[dir]);
            size_t n = std::min((size_t) std::max(0L, op.n), avail);
            if (n == 0) break;
            Chunk ch; ch.data = cp.stream[dir].substr(c.cursor[dir], n);
            if (c.cursor[dir] != 0) R.st.cuts++;
            c.cursor[dir] += n;
            offer(ex, c, dir, ch);
            break;
        }
        case 'q': case 's': {
            int dir = op.kind == 'q' ? 0 : 1;
            if (op.n <= 0) break;
            Chunk ch; ch.gap = true; ch.gap_len = op.n;
            c.cursor[dir] = std::min(cp.stream[dir].size(), c.cursor[dir] + (size_t) op.n);   // the lost bytes are skipped
            offer(ex, c, dir, ch);
            break;
        }
        case 'Z': case 'z': {
            int dir = op.kind == 'Z' ? 0 : 1;
            R.st.zero_len_calls++;
            Chunk ch; long consumed = 0;
            do_call(ex, c, dir, ch, consumed);
            break;
        }
        case 'c': {
            struct timeval tv; tv.tv_sec = (time_t) (g_seams.now_us / 1000000); tv.tv_usec = 0;
            R.st.closes++; R.st.state_at_close[0][state_id_in(c.connp)]++;
            g_cur_conn = &c;
            CallRec cr; memset(&cr, 0, sizeof cr); g_cur_call = &cr;
            g_seams.owner = c.idx + 1; g_in_data_call = true;
            { ApiGuard g("htp_connp_req_close"); htp_connp_req_close(c.connp, ex->null_ts ? nullptr : &tv); }
            g_in_data_call = false;
            g_cur_call = nullptr;
            c.req_closed = true;
            ex->log.byte('c');
            break;
        }
        case 'C': {
            struct timeval tv; tv.tv_sec = (time_t) (g_seams.now_us / 1000000); tv.tv_usec = 0;
            R.st.closes++; R.st.state_at_close[0][state_id_in(c.connp)]++; R.st.state_at_close[1][state_id_out(c.connp)]++;
            if (R.conns[c.idx].pre_close_status[0] < 0) { R.conns[c.idx].pre_close_status[0] = c.connp->in_status; R.conns[c.idx].pre_close_status[1] = c.connp->out_status; }
            g_cur_conn = &c;
            CallRec cr; memset(&cr, 0, sizeof cr); g_cur_call = &cr;
            g_seams.owner = c.idx + 1; g_in_data_call = true;
            { ApiGuard g("htp_connp_close"); htp_connp_close(c.connp, ex->null_ts ? nullptr : &tv); }
            g_in_data_call = false;
            g_cur_call = nullptr;
            c.closed = true;
            ex->log.byte('C');
            break;
        }
        case 'D': destroy_conn(ex, c, true); break;
        case 'T': dispose_completed(ex, c, op.n != 0); break;
        default: break;
    }
    if (op.af) { if (g_seams.fail_at && g_seams.n_total < g_seams.fail_at) g_seams.fail_at = 0; }
    if (c.alive && ex->disposal >= 2 && op.kind != 'T' && op.kind != 'D') dispose_completed(ex, c, ex->disposal >= 3);
}

static void finish_conn(Exec *ex, ConnState &c) {
    if (!c.alive) return;
    // the stub's last attempt to hand over whatever is still queued (QUICK_START 2.2.6/2.2.7)
    for (int round = 0; round < 4; round++) {
        bool any = false;
        for (int d = 0; d < 2; d++) if (c.suspended[d] && c.alive) { resume(ex, c, d); pump(ex, c, d); any = true; }
        if (!any) break;
    }
}

// ------------------------------------------------------------------------------------------------
// baton scheduler (C19): real threads, exactly one runnable; pre-emption at libhtp basic blocks, decided by a PRNG
// whose seed is in the plan. Same plan => same switch points (recorded as a schedule hash).

struct SeamCtx { bool track; int owner; const char *phase; uint64_t call_start; int64_t now_us; uint64_t n_in_op; };

struct Baton {
    std::mutex m; std::condition_variable cv;
    int turn = -1;                 // task id that may run; -1 = main
    std::vector<bool> done;
    std::vector<SeamCtx> ctx;
    Rng rng; long mean = 50; long countdown = 50;
    uint64_t switches = 0; Fnv hash;
    bool active = false;
    int pick_next(int me) {
        std::vector<int> live; for (size_t i = 0; i < done.size(); i++) if (!done[i]) live.push_back((int) i);
        if (live.empty()) return -1;
        (void) me; return live[rng.below(live.size())];
    }
};
static Baton *g_baton = nullptr;
static thread_local int g_task_id = -1;

static void baton_save(SeamCtx &c) { c.track = g_seams.track; c.owner = g_seams.owner; c.phase = seams_current_phase(); c.call_start = g_seams.call_start_ticks; c.now_us = g_seams.now_us; c.n_in_op = g_seams.n_in_op; }
static void baton_restore(const SeamCtx &c) { g_seams.track = c.track; g_seams.owner = c.owner; seams_set_phase(c.phase); g_seams.call_start_ticks = c.call_start; g_seams.now_us = c.now_us; g_seams.n_in_op = c.n_in_op; }

// hand the baton to `next` and wait until it comes back (unless we are finished)
static void baton_switch(Baton *b, int me, int next, bool finished) {
    std::unique_lock<std::mutex> lk(b->m);
    if (me >= 0) baton_save(b->ctx[(size_t) me]);
    b->switches++; b->hash.u64((uint64_t) (next + 1)); b->hash.u64(g_seams.ticks);
    b->turn = next;
    b->cv.notify_all();
    if (finished) return;
    b->cv.wait(lk, [&] { return b->turn == me; });
    if (me >= 0) { uint64_t elapsed_in_call = 0; (void) elapsed_in_call; baton_restore(b->ctx[(size_t) me]); }
}

static void baton_preempt() {
    Baton *b = g_baton;
    if (!b || !b->active || g_task_id < 0 || g_no_preempt) return;
    if (--b->countdown > 0) return;
    b->countdown = (long) b->rng.geom((size_t) b->mean);
    int next = b->pick_next(g_task_id);
    if (next == g_task_id || next < 0) return;
    // the virtual-CPU budget is per call and per task: time spent parked does not count
    uint64_t used = g_seams.ticks - g_seams.call_start_ticks;
    baton_switch(b, g_task_id, next, false);
    g_seams.call_start_ticks = g_seams.ticks - used;
}

static void run_threaded(Exec &ex, const Plan &p) {
    size_t n = ex.conns.size();
    Baton b; b.done.assign(n, false); b.ctx.resize(n); b.rng.reseed((uint64_t) p.sched_seed * 0x9e3779b97f4a7c15ULL + 17); b.mean = std::max(1L, p.sched_mean); b.countdown = (long) b.rng.geom((size_t) b.mean);
    for (size_t i = 0; i < n; i++) { SeamCtx c; baton_save(c); c.track = false; c.owner = (int) i + 1; c.phase = "harness"; b.ctx[i] = c; }
    g_baton = &b;
    std::vector<std::vector<Op>> per((size_t) n);
    for (auto &op : p.ops) if (op.conn >= 0 && (size_t) op.conn < n) per[(size_t) op.conn].push_back(op);
    std::vector<std::thread> th;
    Exec *exp = &ex;
    for (size_t i = 0; i < n; i++) {
        th.emplace_back([&, i, exp]() {
            g_ex = exp; g_task_id = (int) i;
            { std::unique_lock<std::mutex> lk(b.m); b.cv.wait(lk, [&] { return b.turn == (int) i; }); baton_restore(b.ctx[i]); }
            for (auto &op : per[i]) exec_op(exp, op);
            finish_conn(exp, exp->conns[i]);
            if (p.cfg.get("autoclose", 1) && exp->conns[i].alive && !exp->conns[i].closed) { Op op; op.kind = 'C'; op.conn = (int) i; exec_op(exp, op); }
            int next;
            { std::unique_lock<std::mutex> lk(b.m); b.done[i] = true; next = b.pick_next((int) i); }
            baton_switch(&b, (int) i, next, true);
        });
    }
    b.active = true;
    g_preempt_hook = baton_preempt;
    int first; { std::unique_lock<std::mutex> lk(b.m); first = b.pick_next(-1); }
    {
        std::unique_lock<std::mutex> lk(b.m);
        b.turn = first; b.cv.notify_all();
        b.cv.wait(lk, [&] { return b.turn == -1; });
    }
    g_preempt_hook = nullptr; b.active = false;
    for (auto &t : th) t.join();
    ex.res->sched_switches = b.switches; ex.res->sched_hash = b.hash.h;
    g_baton = nullptr;
    g_seams.track = false; g_seams.owner = 0; seams_set_phase("harness");
}

void execute_plan(const Plan &p, RunResult &R) {
    Exec ex; ex.plan = &p; ex.res = &R;
    memset(ex.hook_count, 0, sizeof ex.hook_count);
    g_ex = &ex;
    seams_reset_run();
    g_seams.call_budget = (uint64_t) p.cfg.get("call_budget", 200000000);
    g_seams.clock_mode = (int) p.cfg.get("clock_mode", 0);
    g_seams.clock_fault_every = (uint64_t) p.cfg.get("clock_every", 0);
    g_seams.clock_jump_us = p.cfg.get("clock_jump", 0);
    g_seams.step_us = p.cfg.get("clock_step", 7);
    g_seams.fs_fail_mkstemp_at = (int) p.cfg.get("fs_mkstemp_at", 0);
    g_seams.fs_fail_write_at = (int) p.cfg.get("fs_write_at", 0);
    g_seams.fs_write_mode = (int) p.cfg.get("fs_write_mode", 0);
    g_seams.fs_fail_close_at = (int) p.cfg.get("fs_close_at", 0);
    if (p.alloc_fail_at) { g_seams.fail_at = (uint64_t) p.alloc_fail_at; g_seams.fail_sustained = p.alloc_sustained != 0; }
    ex.disposal = p.cfg.get("disposal", 0);
    ex.null_ts = p.cfg.get("null_ts", 0) != 0;
    htp_verif_gzip_buf_size = (size_t) std::max<long>(16, p.cfg.get("gzip_buf", 8192));
    R = RunResult();
    R.conns.resize(p.conns.size());
    ex.conns.resize(p.conns.size());

    g_seams.owner = 0;
#ifdef SIM_OWNERSHIP
    g_access_hook = ownership_access;
#endif
    { ApiGuard g("htp_config_create"); ex.cfg = build_cfg(p); }
    if (!ex.cfg) {
        // only legitimate under allocation failure
        if (!g_seams.failed) violate(&ex, "C01", "C01.config_create_failed", "htp_config_create returned NULL without an injected fault");
    } else {
        bool explicit_open = p.cfg.get("explicit_open", 0) != 0;
        for (size_t i = 0; i < ex.conns.size(); i++) {
            ex.conns[i].idx = (int) i;
            if (!open_conn(&ex, ex.conns[i])) {
                if (!g_seams.failed) violate(&ex, "C01", "C01.connp_create_failed", "htp_connp_create returned NULL without an injected fault");
                continue;
            }
            if (!explicit_open) api_open(&ex, ex.conns[i]);
        }
        uint64_t h0 = cfg_hash(ex.cfg);
        if (p.threads > 0 && ex.conns.size() > 1) run_threaded(ex, p);
        else {
            for (auto &op : p.ops) exec_op(&ex, op);
            for (auto &c : ex.conns) finish_conn(&ex, c);
            if (p.cfg.get("autoclose", 1)) {
                for (auto &c : ex.conns) if (c.alive && !c.closed) { Op op; op.kind = 'C'; op.conn = c.idx; exec_op(&ex, op); }
            }
        }
        if (cfg_hash(ex.cfg) != h0) { R.cfg_changed = true; violate(&ex, "C19", "C19.shared_cfg_written", "configuration bytes or hook lists changed while parsing"); }
        for (auto &c : ex.conns) destroy_conn(&ex, c, false);
        g_seams.owner = 0;
        { ApiGuard g("htp_config_destroy"); htp_config_destroy(ex.cfg); }
        ex.cfg = nullptr;
    }
    // ---- C01: teardown leaves nothing behind (not asserted under injected allocation failure: C18 does not promise it)
    if (seams_live_blocks() != 0) {
        if (!g_seams.failed)
            violate(&ex, "C01", "C01.leak", strfmt("%zu blocks live after destroy:%s", seams_live_blocks(), seams_describe_live(4).c_str()));
        seams_forget_live();
    }
    if (!g_seams.files.empty()) R.fs_faults += 0;   // open descriptors are counted, not asserted (DESIGN C01 iv)
    for (auto &h : g_seams.ubsan)
        violate(&ex, p.alloc_fail_at ? "C18" : "C01", strfmt("%s.ubsan.%s@%s", p.alloc_fail_at ? "C18" : "C01", h.kind.c_str(), h.file.c_str()), strfmt("%s:%u", h.file.c_str(), h.line));
    if (g_seams.bad_free && !R.viol.size()) violate(&ex, "C01", "C01.bad_free", strfmt("%llu frees of unknown pointers", (unsigned long long) g_seams.bad_free));
    R.hash = ex.log.h; R.behaviour_sig = ex.beh.h; R.access_checks = g_access_checks; g_access_checks = 0;
    R.total_allocs = g_seams.n_total; R.alloc_failed = g_seams.failed; R.fail_site = g_seams.first_fail_site; R.realloc_ks = g_seams.realloc_ks;
    R.peak_bytes = g_seams.peak_bytes; R.ticks = g_seams.ticks; R.ubsan_benign = g_seams.ubsan_benign;
    R.clock_reads = g_seams.clock_reads; R.clock_faults = g_seams.clock_faults; R.fs_faults = g_seams.fs_faults;
    R.fs_calls = g_seams.n_mkstemp + g_seams.n_write + g_seams.n_close + g_seams.n_unlink;
    for (auto &kv : g_seams.closed_files) R.files[kv.first] = kv.second;
    g_ex = nullptr; g_cur_conn = nullptr;
}


// ------------------------------------------------------------------------------------------------
// direct drivers for the streaming sub-parsers

static void direct_epilogue(const char *prop, std::vector<Violation> &viol) {
    if (seams_live_blocks() != 0) {
        Violation v; v.prop = "C01"; v.oracle = std::string(prop) + ".via.C01.leak"; v.detail = strfmt("%zu blocks live after destroy:%s", seams_live_blocks(), seams_describe_live(4).c_str());
        viol.push_back(v); seams_forget_live();
    }
    for (auto &h : g_seams.ubsan) { Violation v; v.prop = "C01"; v.oracle = strfmt("%s.via.C01.ubsan.%s@%s", prop, h.kind.c_str(), h.file.c_str()); v.detail = strfmt("%s:%u", h.file.c_str(), h.line); viol.push_back(v); }
    g_seams.ubsan.clear();
}

static void apply_decoder_cfg(htp_cfg_t *cfg, const Cfg &c) {
    if (c.has("url_invalid")) htp_config_set_url_encoding_invalid_handling(cfg, HTP_DECODER_URLENCODED, (enum htp_url_encoding_handling_t) c.get("url_invalid", 0));
    if (c.has("plusspace")) htp_config_set_plusspace_decode(cfg, HTP_DECODER_URLENCODED, (int) c.get("plusspace", 1));
    if (c.has("u_decode")) htp_config_set_u_encoding_decode(cfg, HTP_DECODER_URLENCODED, (int) c.get("u_decode", 0));
    if (c.has("nul_enc_term")) htp_config_set_nul_encoded_terminates(cfg, HTP_DECODER_URLENCODED, (int) c.get("nul_enc_term", 0));
    if (c.has("nul_raw_term")) htp_config_set_nul_raw_terminates(cfg, HTP_DECODER_URLENCODED, (int) c.get("nul_raw_term", 0));
    if (c.get("u_map", 0)) { htp_config_set_bestfit_map(cfg, HTP_DECODER_URLENCODED, (void *) SIM_BESTFIT); htp_config_set_bestfit_replacement_byte(cfg, HTP_DECODER_URLENCODED, SIM_BESTFIT_DEFAULT); }
}

bool run_urlenp_direct(const Cfg &c, const Bytes &input, const std::vector<size_t> &chunks, Dump &out, std::vector<Violation> &viol) {
    out.clear();
    seams_reset_run();
    g_seams.call_budget = 200000000;
    bool ok = false;
    {
        ApiGuard g("urlenp_direct");
        htp_cfg_t *cfg = htp_config_create();
        htp_connp_t *connp = cfg ? htp_connp_create(cfg) : NULL;
        htp_tx_t *tx = connp ? htp_connp_tx_create(connp) : NULL;
        htp_urlenp_t *up = tx ? htp_urlenp_create(tx) : NULL;
        if (up) {
            apply_decoder_cfg(cfg, c);
            size_t pos = 0;
            std::vector<size_t> sizes = chunks;
            size_t tot = 0; for (size_t n : sizes) tot += n;
            if (tot < input.size()) sizes.push_back(input.size() - tot);
            for (size_t n : sizes) {
                n = std::min(n, input.size() - pos);
                if (n == 0) continue;
                // exact-size heap copy: an over-read is an ASan report
                unsigned char *buf = (unsigned char *) malloc(n); memcpy(buf, input.data() + pos, n);
                g_seams.track = true;
                htp_urlenp_parse_partial(up, buf, n);
                free(buf);
                pos += n;
            }
            htp_urlenp_finalize(up);
            size_t np = htp_table_size(up->params);
            putn(out, "count", (long long) np);
            for (size_t i = 0; i < np; i++) {
                bstr *name = NULL; bstr *val = (bstr *) htp_table_get_index(up->params, i, &name);
                putb(out, strfmt("%zu.name", i), name); putb(out, strfmt("%zu.value", i), val);
            }
            putn(out, "flags", (long long) tx->flags);
            ok = true;
        }
        if (up) htp_urlenp_destroy(up);
        if (connp) htp_connp_destroy_all(connp);
        if (cfg) htp_config_destroy(cfg);
    }
    direct_epilogue("C15", viol);
    return ok;
}

static thread_local std::map<void *, Bytes> *g_mp_files;
static int mp_file_cb(htp_file_data_t *d) {
    if (d && d->file && g_mp_files) { if (d->data && d->len) { (void) fnv_of(d->data, d->len); (*g_mp_files)[d->file].append((const char *) d->data, d->len); } else (*g_mp_files)[d->file]; }
    return HTP_OK;
}

bool run_mpart_direct(const Cfg &c, const Bytes &content_type, const Bytes &body, const std::vector<size_t> &chunks, Dump &out, std::vector<Violation> &viol) {
    out.clear();
    seams_reset_run();
    g_seams.call_budget = 200000000;
    std::map<void *, Bytes> files; g_mp_files = &files;
    bool ok = false;
    {
        ApiGuard g("mpart_direct");
        htp_cfg_t *cfg = htp_config_create();
        if (cfg) {
            htp_config_register_request_file_data(cfg, mp_file_cb);
            if (c.get("extract_files", 0)) { htp_config_set_tmpdir(cfg, (char *) "/simtmp"); htp_config_set_extract_request_files(cfg, 1, (int) c.get("extract_limit", -1)); }
            bstr *ct = bstr_dup_mem(content_type.data(), content_type.size());
            bstr *boundary = NULL; uint64_t flags = 0;
            htp_status_t rc = ct ? htp_mpartp_find_boundary(ct, &boundary, &flags) : HTP_ERROR;
            bstr_free(ct);
            htp_mpartp_t *mp = (rc == HTP_OK && boundary) ? htp_mpartp_create(cfg, boundary, flags) : NULL;
            if (mp) {
                size_t pos = 0;
                std::vector<size_t> sizes = chunks;
                size_t tot = 0; for (size_t n : sizes) tot += n;
                if (tot < body.size()) sizes.push_back(body.size() - tot);
                for (size_t n : sizes) {
                    n = std::min(n, body.size() - pos);
                    if (n == 0) continue;
                    unsigned char *buf = (unsigned char *) malloc(n); memcpy(buf, body.data() + pos, n);
                    g_seams.track = true;
                    htp_mpartp_parse(mp, buf, n);
                    free(buf);
                    pos += n;
                }
                htp_mpartp_finalize(mp);
                htp_multipart_t *m = htp_mpartp_get_multipart(mp);
                if (m) {
                    putn(out, "flags", (long long) m->flags); putn(out, "boundary_count", m->boundary_count);
                    size_t np = m->parts ? htp_list_size(m->parts) : 0;
                    putn(out, "count", (long long) np);
                    for (size_t i = 0; i < np; i++) {
                        htp_multipart_part_t *pt = (htp_multipart_part_t *) htp_list_get(m->parts, i);
                        if (!pt) continue;
                        std::string q = strfmt("%zu", i);
                        putn(out, q + ".type", pt->type); putb(out, q + ".name", pt->name); putb(out, q + ".value", pt->value); putb(out, q + ".ct", pt->content_type);
                        if (pt->file) {
                            putb(out, q + ".filename", pt->file->filename); putn(out, q + ".filelen", pt->file->len);
                            auto it = files.find(pt->file); put(out, q + ".filedata", it == files.end() ? Bytes("<none>") : it->second);
                            if (pt->file->tmpname) { auto f = g_seams.closed_files.find(pt->file->tmpname); put(out, q + ".tmpfile", f == g_seams.closed_files.end() ? Bytes("<open-or-missing>") : f->second); }
                        }
                        dump_headers(out, (q + ".hdr").c_str(), pt->headers);
                    }
                    ok = true;
                }
                htp_mpartp_destroy(mp);
            } else if (boundary) bstr_free(boundary);
            htp_config_destroy(cfg);
        }
    }
    g_mp_files = nullptr;
    direct_epilogue("C14", viol);
    return ok;
}

#include "seams.h"
#include <cstdio>
#include <cstdlib>
#include <cstring>
#include <cerrno>
#include <cstdarg>
#include <algorithm>
#include <unistd.h>
#include <sys/time.h>
#include <sys/stat.h>

SimSeams g_seams;
void (*g_preempt_hook)() = nullptr;
void (*g_access_hook)(const void *, unsigned, int) = nullptr;

struct Block { size_t size; uint64_t seq; int owner; uintptr_t site; };
std::vector<WatchedStatic> g_watched_statics;
void seams_load_watch_list() {
    g_watched_statics.clear();
    const char *e = getenv("VERIF_STATICS");   // "0xaddr:size:name,..."
    if (!e) return;
    std::string s = e; size_t pos = 0;
    while (pos < s.size()) {
        size_t c = s.find(',', pos); if (c == std::string::npos) c = s.size();
        std::string item = s.substr(pos, c - pos); pos = c + 1;
        size_t a = item.find(':'), b = item.find(':', a == std::string::npos ? 0 : a + 1);
        if (a == std::string::npos || b == std::string::npos) continue;
        WatchedStatic w; w.addr = (uintptr_t) strtoull(item.substr(0, a).c_str(), 0, 16); w.size = (size_t) strtoull(item.substr(a + 1, b - a - 1).c_str(), 0, 10); w.name = item.substr(b + 1);
        if (w.addr && w.size) g_watched_statics.push_back(w);
    }
}
static std::map<uintptr_t, Block> *g_live;   // heap-allocated on purpose: must outlive static destructors
static const char *g_phase = "idle";

static std::map<uintptr_t, Block> &live() { if (!g_live) g_live = new std::map<uintptr_t, Block>(); return *g_live; }

const char *seams_current_phase() { return g_phase; }
void seams_set_phase(const char *p) { g_phase = p; }

void seams_reset_run() {
    SimSeams &s = g_seams;
    s.track = false; s.n_total = s.n_in_op = 0; s.fail_at = 0; s.fail_sustained = false; s.failed = 0; s.first_fail_site = 0;
    s.peak_bytes = s.live_bytes; s.owner = 0; s.bad_free = 0; s.realloc_ks.clear();
    s.now_us = 1700000000LL * 1000000LL; s.step_us = 7; s.clock_mode = 0; s.clock_jump_us = 0; s.clock_reads = 0;
    s.clock_fault_every = 0; s.clock_faults = 0;
    s.fs_fail_mkstemp_at = s.fs_fail_write_at = s.fs_fail_close_at = 0; s.fs_write_mode = 0;
    s.n_mkstemp = s.n_write = s.n_close = s.n_unlink = s.fs_faults = 0;
    s.files.clear(); s.file_names.clear(); s.closed_files.clear(); s.next_fd = 1000;
    s.ticks = 0; s.call_start_ticks = 0; s.call_budget = 0;
    s.ubsan.clear(); s.ubsan_benign = 0;
}

size_t seams_live_blocks() { return live().size(); }

std::string seams_describe_live(size_t max_items) {
    std::string o; size_t n = 0; char buf[128];
    for (auto &kv : live()) {
        if (n++ >= max_items) { o += " ..."; break; }
        snprintf(buf, sizeof buf, " [#%llu %zuB site=0x%lx]", (unsigned long long) kv.second.seq, kv.second.size, (unsigned long) kv.second.site);
        o += buf;
    }
    return o;
}

// histogram of the live set by allocation site (debugging aid: VERIF_LIVE_HIST)
std::string seams_live_histogram() {
    std::map<uintptr_t, std::pair<size_t, size_t>> h;
    for (auto &kv : live()) { auto &e = h[kv.second.site]; e.first++; e.second += kv.second.size; }
    std::string o; char buf[96];
    for (auto &kv : h) { snprintf(buf, sizeof buf, " 0x%lx:%zu:%zu", (unsigned long) kv.first, kv.second.first, kv.second.second); o += buf; }
    return o;
}

void seams_forget_live() { live().clear(); g_seams.live_bytes = 0; g_seams.live_blocks = 0; }

uint64_t g_alloc_epoch = 0;
int seams_block_owner_ex(const void *addr, uintptr_t *lo, uintptr_t *hi) {
    auto &m = live();
    uintptr_t a = (uintptr_t) addr;
    auto it = m.upper_bound(a);
    if (it == m.begin()) return -1;
    --it;
    uintptr_t end = it->first + (it->second.size ? it->second.size : 1);
    if (a < end) { *lo = it->first; *hi = end; return it->second.owner; }
    return -1;
}
int seams_block_owner(const void *addr) {
    auto &m = live();
    uintptr_t a = (uintptr_t) addr;
    auto it = m.upper_bound(a);
    if (it == m.begin()) return -1;
    --it;
    if (a < it->first + (it->second.size ? it->second.size : 1)) return it->second.owner;
    return -1;
}

static bool should_fail(uintptr_t site) {
    SimSeams &s = g_seams;
    s.n_total++; s.n_in_op++;
    if (s.fail_at && (s.n_total == s.fail_at || (s.fail_sustained && s.n_total > s.fail_at))) {
        if (!s.failed) s.first_fail_site = site;
        s.failed++;
        return true;
    }
    return false;
}

static void note_alloc(void *p, size_t n, uintptr_t site) {
    SimSeams &s = g_seams;
    Block b; b.size = n; b.seq = s.n_total; b.owner = s.owner; b.site = site;
    live()[(uintptr_t) p] = b; g_alloc_epoch++;
    s.live_bytes += (int64_t) n; s.live_blocks++;
    if (s.live_bytes > s.peak_bytes) s.peak_bytes = s.live_bytes;
}

static bool note_free(void *p) {
    SimSeams &s = g_seams;
    auto &m = live();
    auto it = m.find((uintptr_t) p);
    if (it == m.end()) return false;
    s.live_bytes -= (int64_t) it->second.size; s.live_blocks--;
    m.erase(it); g_alloc_epoch++;
    return true;
}

extern "C" {

void *sim_malloc(size_t n) {
    if (!g_seams.track) return malloc(n);
    uintptr_t site = (uintptr_t) __builtin_return_address(0);
    if (should_fail(site)) { errno = ENOMEM; return NULL; }
    void *p = malloc(n);
    if (p) note_alloc(p, n, site);
    return p;
}

void *sim_calloc(size_t a, size_t b) {
    if (!g_seams.track) return calloc(a, b);
    uintptr_t site = (uintptr_t) __builtin_return_address(0);
    if (should_fail(site)) { errno = ENOMEM; return NULL; }
    void *p = calloc(a, b);
    if (p) note_alloc(p, a * b, site);
    return p;
}

void *sim_realloc(void *old, size_t n) {
    if (!g_seams.track) {
        // a block handed out while tracking may be resized outside (never happens with libhtp; be safe)
        if (old && note_free(old)) { void *q = realloc(old, n); if (q) note_alloc(q, n, 0); return q; }
        return realloc(old, n);
    }
    uintptr_t site = (uintptr_t) __builtin_return_address(0);
    if (old && g_seams.realloc_ks.size() < 100000) g_seams.realloc_ks.push_back(g_seams.n_total + 1);
    if (should_fail(site)) { errno = ENOMEM; return NULL; }   // old block stays valid, as with real realloc
    bool known = old ? note_free(old) : true;
    if (old && !known) g_seams.bad_free++;
    void *p = realloc(old, n);
    if (p) note_alloc(p, n, site);
    return p;
}

void sim_free(void *p) {
    if (p == NULL) return;
    bool known = note_free(p);
    if (!known && g_seams.track) g_seams.bad_free++;   // ASan reports the double/invalid free itself below
    free(p);
}

char *sim_strdup(const char *s) {
    if (!g_seams.track) return strdup(s);
    uintptr_t site = (uintptr_t) __builtin_return_address(0);
    if (should_fail(site)) { errno = ENOMEM; return NULL; }
    size_t n = strlen(s) + 1;
    char *p = (char *) malloc(n);
    if (p) { memcpy(p, s, n); note_alloc(p, n, site); }
    return p;
}

int sim_gettimeofday(struct timeval *tv, void *tz) {
    (void) tz;
    SimSeams &s = g_seams;
    s.clock_reads++;
    s.now_us += s.step_us;
    int64_t t = s.now_us;
    bool fault = s.clock_fault_every && (s.clock_reads % s.clock_fault_every) == 0;
    if (fault) {
        s.clock_faults++;
        switch (s.clock_mode) {
            case 1: s.now_us += s.clock_jump_us; t = s.now_us; break;           // jump forward, stays there
            case 2: s.now_us -= s.clock_jump_us; t = s.now_us; break;           // clock set back
            case 3: s.now_us -= s.step_us; t = s.now_us; break;                 // stall
            default: break;
        }
    }
    if (tv) {
        tv->tv_sec = (time_t) (t / 1000000);
        tv->tv_usec = (suseconds_t) (t % 1000000);
        if (fault && s.clock_mode == 4) tv->tv_usec = 999999999;                // garbage sub-second field
    }
    return 0;
}

int sim_mkstemp(char *tmpl) {
    SimSeams &s = g_seams;
    s.n_mkstemp++;
    if (s.fs_fail_mkstemp_at && (int) s.n_mkstemp == s.fs_fail_mkstemp_at) { s.fs_faults++; errno = EMFILE; return -1; }
    size_t n = strlen(tmpl);
    if (n < 6 || strcmp(tmpl + n - 6, "XXXXXX") != 0) { errno = EINVAL; return -1; }
    snprintf(tmpl + n - 6, 7, "%06d", (int) (s.n_mkstemp % 1000000));
    int fd = s.next_fd++;
    s.files[fd] = std::string();
    s.file_names[fd] = tmpl;
    return fd;
}

ssize_t sim_write(int fd, const void *buf, size_t n) {
    SimSeams &s = g_seams;
    auto it = s.files.find(fd);
    if (it == s.files.end()) { errno = EBADF; return -1; }
    s.n_write++;
    if (s.fs_fail_write_at && (int) s.n_write == s.fs_fail_write_at) {
        s.fs_faults++;
        if (s.fs_write_mode == 1 && n > 1) { it->second.append((const char *) buf, n / 2); return (ssize_t) (n / 2); }
        errno = s.fs_write_mode == 2 ? EIO : ENOSPC;
        return -1;
    }
    it->second.append((const char *) buf, n);
    return (ssize_t) n;
}

int sim_close(int fd) {
    SimSeams &s = g_seams;
    auto it = s.files.find(fd);
    if (it == s.files.end()) { errno = EBADF; return -1; }
    s.n_close++;
    s.closed_files[s.file_names[fd]] = it->second;
    s.files.erase(it); s.file_names.erase(fd);
    if (s.fs_fail_close_at && (int) s.n_close == s.fs_fail_close_at) { s.fs_faults++; errno = EIO; return -1; }
    return 0;
}

int sim_unlink(const char *name) {
    SimSeams &s = g_seams;
    s.n_unlink++;
    s.closed_files.erase(name);
    return 0;
}

mode_t sim_umask(mode_t m) { (void) m; return 022; }

// ---- virtual CPU clock: one tick per libhtp basic block -------------------------------------------
void __sanitizer_cov_trace_pc_guard_init(uint32_t *start, uint32_t *stop) {
    for (uint32_t *p = start; p < stop; p++) *p = 1;
}

void __sanitizer_cov_trace_pc_guard(uint32_t *guard) {
    (void) guard;
    SimSeams &s = g_seams;
    s.ticks++;
    if (s.call_budget && s.ticks - s.call_start_ticks > s.call_budget) {
        // deterministic "this call does not return" verdict
        fprintf(stdout, "HANG phase=%s ticks=%llu\n", g_phase, (unsigned long long) (s.ticks - s.call_start_ticks));
        fflush(stdout);
        _exit(78);
    }
    if (g_preempt_hook) g_preempt_hook();
}

#define SIM_ACCESS(name, size, st) \
    void name(const void *addr) { if (g_access_hook) g_access_hook(addr, size, st); }
SIM_ACCESS(__sanitizer_cov_load1, 1, 0)
SIM_ACCESS(__sanitizer_cov_load2, 2, 0)
SIM_ACCESS(__sanitizer_cov_load4, 4, 0)
SIM_ACCESS(__sanitizer_cov_load8, 8, 0)
SIM_ACCESS(__sanitizer_cov_load16, 16, 0)
SIM_ACCESS(__sanitizer_cov_store1, 1, 1)
SIM_ACCESS(__sanitizer_cov_store2, 2, 1)
SIM_ACCESS(__sanitizer_cov_store4, 4, 1)
SIM_ACCESS(__sanitizer_cov_store8, 8, 1)
SIM_ACCESS(__sanitizer_cov_store16, 16, 1)

// ---- bulk writes made by libhtp (own flavour only): checked as stores at both ends of the range
static inline void own_range(void *dst, size_t n) { if (g_access_hook && n) { g_access_hook(dst, 1, 1); if (n > 1) g_access_hook((char *) dst + n - 1, 1, 1); } }
static inline void own_read(const void *src, size_t n) { if (g_access_hook && n) { g_access_hook(src, 1, 0); if (n > 1) g_access_hook((const char *) src + n - 1, 1, 0); } }
void *simown_memcpy(void *d, const void *s, size_t n) { own_range(d, n); own_read(s, n); return memcpy(d, s, n); }
void *simown_memmove(void *d, const void *s, size_t n) { own_range(d, n); own_read(s, n); return memmove(d, s, n); }
void *simown_memset(void *d, int c, size_t n) { own_range(d, n); return memset(d, c, n); }
void *simown_asan_memcpy(void *d, const void *s, size_t n) { return simown_memcpy(d, s, n); }
void *simown_asan_memmove(void *d, const void *s, size_t n) { return simown_memmove(d, s, n); }
void *simown_asan_memset(void *d, int c, size_t n) { return simown_memset(d, c, n); }
char *simown_strncpy(char *d, const char *s, size_t n) { own_range(d, n); return strncpy(d, s, n); }
// formatted output into a caller-supplied buffer is a store too (a function-level static scratch buffer filled by vsnprintf and
// copied out at once was invisible to the oracle: seeded change C19-j)
int simown_vsnprintf(char *d, size_t n, const char *fmt, va_list ap) { int r = vsnprintf(d, n, fmt, ap); if (n) own_range(d, r < 0 ? 1 : std::min<size_t>(n, (size_t) r + 1)); return r; }
int simown_snprintf(char *d, size_t n, const char *fmt, ...) { va_list ap; va_start(ap, fmt); int r = simown_vsnprintf(d, n, fmt, ap); va_end(ap); return r; }
char *simown_strncat(char *d, const char *s, size_t n) { size_t dl = strlen(d); own_range(d + dl, std::min(strlen(s), n) + 1); return strncat(d, s, n); }

// ---- sanitizer plumbing -----------------------------------------------------------------------
#if defined(SIM_SANITIZE)
void __ubsan_get_current_report_data(const char **OutIssueKind, const char **OutMessage, const char **OutFilename,
                                     unsigned *OutLine, unsigned *OutCol, char **OutMemoryAddr);
void __ubsan_on_report(void) {
    const char *kind = 0, *msg = 0, *file = 0; unsigned line = 0, col = 0; char *addr = 0;
    __ubsan_get_current_report_data(&kind, &msg, &file, &line, &col, &addr);
    UbsanHit h; h.kind = kind ? kind : "?"; h.file = file ? file : "?"; h.line = line;
    // NULL + 0 (zero offset applied to a null pointer) is benign by policy, see DESIGN.md 3.3
    if (h.kind == "nullptr-with-offset") { g_seams.ubsan_benign++; return; }
    size_t slash = h.file.rfind('/');
    if (slash != std::string::npos) h.file = h.file.substr(slash + 1);
    g_seams.ubsan.push_back(h);
}

__attribute__((used)) const char *__asan_default_options() {
    return "exitcode=77:detect_leaks=0:allocator_may_return_null=1:abort_on_error=0:handle_abort=1:detect_stack_use_after_return=0:print_summary=1";
}
__attribute__((used)) const char *__ubsan_default_options() {
    return "print_stacktrace=0:halt_on_error=0";
}
#endif

} // extern "C"

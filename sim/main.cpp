// htpsim: deterministic simulation of the world around libhtp. See /verif/DESIGN.md.
#include "props.h"
#include "agg.h"
#include <unistd.h>
#include <fcntl.h>
#include <sys/wait.h>
#include <sys/stat.h>
#include <time.h>

static double now_s() { struct timespec ts; clock_gettime(CLOCK_MONOTONIC, &ts); return (double) ts.tv_sec + (double) ts.tv_nsec / 1e9; }

static uint64_t prop_salt(const std::string &prop) { return fnv_of(prop.data(), prop.size()); }
static uint64_t run_seed(uint64_t verif_seed, const std::string &prop, uint64_t idx) { return mix64(mix64(verif_seed, prop_salt(prop)), idx); }

static std::string arg_of(int argc, char **argv, const char *name, const char *def) {
    for (int i = 1; i + 1 < argc; i++) if (!strcmp(argv[i], name)) return argv[i + 1];
    return def;
}
static bool has_flag(int argc, char **argv, const char *name) { for (int i = 1; i < argc; i++) if (!strcmp(argv[i], name)) return true; return false; }

static std::string one_line(const std::string &s) { std::string o = s; for (auto &c : o) if (c == '\n' || c == '\r') c = ' '; return o; }

// ------------------------------------------------------------------------------------------------
extern void (*g_progress_note)(uint64_t);
static int g_curfd = -1; static uint64_t g_cur_idx = 0;
static void note_progress(uint64_t sub) {
    if (g_curfd < 0) return;
    char b[64]; int n = snprintf(b, sizeof b, "%020llu %020llu\n", (unsigned long long) g_cur_idx, (unsigned long long) sub);
    if (pwrite(g_curfd, b, (size_t) n, 0) < 0) {}
}

static int cmd_run(int argc, char **argv) {
    std::string prop = arg_of(argc, argv, "--prop", "");
    uint64_t seed = strtoull(arg_of(argc, argv, "--seed", "1").c_str(), 0, 10);
    uint64_t start = strtoull(arg_of(argc, argv, "--start", "0").c_str(), 0, 10);
    uint64_t stride = strtoull(arg_of(argc, argv, "--stride", "1").c_str(), 0, 10);
    uint64_t max_runs = strtoull(arg_of(argc, argv, "--max-runs", "0").c_str(), 0, 10);
    double budget = atof(arg_of(argc, argv, "--budget-s", "10").c_str());
    std::string out = arg_of(argc, argv, "--out", "/verif/out/tmp");
    std::string wname = arg_of(argc, argv, "--worker", "0");
    int max_viol = atoi(arg_of(argc, argv, "--max-violations", "3").c_str());
    std::string hashes = arg_of(argc, argv, "--hashes", "");   // determinism self-test: one line per run (index, event-log hash, behaviour signature, verdict)
    FILE *hf = hashes.empty() ? nullptr : fopen(hashes.c_str(), "w");
    std::set<std::string> excluded;
    { std::string k = arg_of(argc, argv, "--exclude", ""); size_t pos = 0; while (!k.empty() && pos <= k.size()) { size_t e = k.find(',', pos); if (e == std::string::npos) e = k.size(); if (e > pos) excluded.insert(k.substr(pos, e - pos)); pos = e + 1; } }
    if (!is_known_property(prop)) { fprintf(stderr, "unknown property %s\n", prop.c_str()); return 2; }
    std::string curfile = out + "/cur-" + wname;
    int curfd = open(curfile.c_str(), O_CREAT | O_WRONLY | O_TRUNC, 0644);
    Agg agg;
    double t0 = now_s();
    uint64_t idx = start, done = 0;
    int nviol = 0;
    uint64_t samples_written = 0;
    for (;; idx += stride) {
        if (max_runs && done >= max_runs) break;
        if ((done & 15) == 0 && now_s() - t0 > budget) break;   // the only real clock read: decides how many runs, never what a run does
        g_curfd = curfd; g_cur_idx = idx; g_progress_note = note_progress; note_progress(0);
        Plan p;
        uint64_t rs = prop == "C08" ? (mix64(seed, 8) & ~0xffffULL) + idx : run_seed(seed, prop, idx);
        if (!generate_plan(prop, rs, p)) { fprintf(stderr, "cannot generate plan\n"); return 2; }
        if (!excluded.empty()) { std::string trg = plan_trigger(p); if (!trg.empty() && excluded.count(trg)) { agg.inc("excluded." + trg); agg.runs++; done++; continue; } }
        double t_run = getenv("VERIF_SLOW") ? now_s() : 0;
        Verdict v = evaluate_plan(p, &agg);
        if (getenv("VERIF_SLOW")) { double dt = now_s() - t_run; if (dt > atof(getenv("VERIF_SLOW"))) fprintf(stderr, "SLOW idx=%llu %.3fs ops=%zu bytes=%zu scenario=%s\n", (unsigned long long) idx, dt, p.ops.size(), p.size_measure(), p.scenario.c_str()); }
        agg.runs++; done++;
        if (hf) fprintf(hf, "%llu %016llx %016llx %d %d\n", (unsigned long long) idx, (unsigned long long) v.hash, (unsigned long long) v.sig, v.executions, v.violated ? 1 : 0);
        if (v.nontrivial) { agg.nontrivial++; if (agg.sigs.size() < 2000000) agg.sigs.insert(v.sig); }
        if (samples_written < 2 && v.nontrivial && p.serialize().size() < 6000) {
            write_file(out + strfmt("/sample-%s-%llu.plan", wname.c_str(), (unsigned long long) samples_written), p.serialize()); samples_written++;
        }
        if (v.violated) {
            agg.violations++;
            std::string path = out + strfmt("/viol-%llu.plan", (unsigned long long) idx);
            if (prop == "C18") { long k = 0, sus = 0; if (sscanf(v.detail.c_str(), "k=%ld", &k) == 1) { sus = v.detail.find("(sustained)") != std::string::npos; p.alloc_fail_at = k; p.alloc_sustained = sus; } }
            write_file(path, p.serialize());
            printf("V idx=%llu seed=%llu oracle=%s hash=%016llx plan=%s detail=%s\n", (unsigned long long) idx, (unsigned long long) rs, v.oracle.c_str(),
                   (unsigned long long) v.hash, path.c_str(), one_line(v.detail).c_str());
            fflush(stdout);
            if (++nviol >= max_viol) break;
        }
    }
    // distinct signatures: written out so the driver can take the union over workers
    {
        std::string bin; bin.reserve(agg.sigs.size() * 8);
        for (uint64_t s : agg.sigs) bin.append((const char *) &s, 8);
        write_file(out + "/sigs-" + wname + ".bin", bin);
    }
    if (hf) fclose(hf);
    printf("AGG %s\n", agg.to_json().c_str());
    printf("END next=%llu wall=%.3f\n", (unsigned long long) idx, now_s() - t0);
    fflush(stdout);
    if (curfd >= 0) close(curfd);
    return 0;
}

static int cmd_emit(int argc, char **argv) {
    std::string prop = arg_of(argc, argv, "--prop", "");
    uint64_t seed = strtoull(arg_of(argc, argv, "--seed", "1").c_str(), 0, 10);
    uint64_t idx = strtoull(arg_of(argc, argv, "--index", "0").c_str(), 0, 10);
    std::string out = arg_of(argc, argv, "--out", "");
    Plan p;
    if (!generate_plan(prop, prop == "C08" ? (mix64(seed, 8) & ~0xffffULL) + idx : run_seed(seed, prop, idx), p)) return 2;
    uint64_t sub = strtoull(arg_of(argc, argv, "--sub", "0").c_str(), 0, 10);
    if (sub && prop == "C18") { p.alloc_fail_at = (long) (sub & ((1ULL << 40) - 1)); p.alloc_sustained = (sub >> 40) & 1; }
    if (out.empty()) fputs(p.serialize().c_str(), stdout); else write_file(out, p.serialize());
    return 0;
}

static int cmd_replay(int argc, char **argv) {
    if (argc < 3) return 2;
    std::string text, err; Plan p;
    if (!read_file(argv[2], text)) { fprintf(stderr, "cannot read %s\n", argv[2]); return 2; }
    if (!Plan::parse(text, p, err)) { fprintf(stderr, "bad plan: %s\n", err.c_str()); return 2; }
    std::string prop = arg_of(argc, argv, "--as", "");
    if (!prop.empty()) p.prop = prop;
    Agg agg;
    extern bool g_debug_dump; g_debug_dump = has_flag(argc, argv, "--dump");
    Verdict v = evaluate_plan(p, &agg);
    printf("RESULT violated=%d oracle=%s hash=%016llx sig=%016llx executions=%d detail=%s\n", v.violated ? 1 : 0, v.violated ? v.oracle.c_str() : "-",
           (unsigned long long) v.hash, (unsigned long long) v.sig, v.executions, one_line(v.detail).c_str());
    if (has_flag(argc, argv, "--stats")) printf("AGG %s\n", agg.to_json().c_str());
    for (auto &kv : agg.c) if (kv.first.compare(0, 10, "known_hit.") == 0) printf("KNOWN-HIT %s %llu\n", kv.first.c_str() + 10, (unsigned long long) kv.second);
    fflush(stdout);
    return v.violated ? 1 : 0;
}

// ------------------------------------------------------------------------------------------------
// minimisation: ddmin over ops + greedy simplifications, every candidate in a forked child so that a
// sanitizer abort is just another outcome. The predicate is "the same oracle id fires".

static std::string g_target;
static int g_tests = 0;

static bool crash_oracle(const std::string &o) { return o.compare(0, 6, "crash.") == 0; }

static bool still_fails(const Plan &cand) {
    g_tests++;
    fflush(stdout);
    int pfd[2]; if (pipe(pfd) != 0) return false;
    pid_t pid = fork();
    if (pid == 0) {
        close(pfd[0]);
        int dn = open("/dev/null", O_WRONLY); if (dn >= 0) { dup2(dn, 2); dup2(dn, 1); }
        alarm(60);
        Verdict v = evaluate_plan(cand, nullptr);
        std::string o = v.violated ? v.oracle : "-";
        if (write(pfd[1], o.data(), o.size()) < 0) {}
        _exit(v.violated ? 1 : 0);
    }
    close(pfd[1]);
    char buf[512]; ssize_t n = read(pfd[0], buf, sizeof buf - 1); if (n < 0) n = 0; buf[n] = 0;
    close(pfd[0]);
    int st = 0; waitpid(pid, &st, 0);
    if (WIFEXITED(st) && WEXITSTATUS(st) == 0) return false;
    if (WIFEXITED(st) && WEXITSTATUS(st) == 1) return g_target == buf;
    return crash_oracle(g_target);   // abnormal end (sanitizer, virtual-CPU watchdog, signal)
}

static void drop_exchange(Plan &p, size_t c, size_t i) {
    ConnPlan &cp = p.conns[c];
    Exchange x = cp.xchg[i];
    auto clampx = [&](Extent &e, size_t n) { e.a = std::min<long>(std::max<long>(e.a, 0), (long) n); e.b = std::min<long>(std::max<long>(e.b, e.a), (long) n); };
    clampx(x.req, cp.stream[0].size()); clampx(x.res, cp.stream[1].size());
    long rl = x.req.b - x.req.a, sl = x.res.b - x.res.a;
    cp.stream[0].erase((size_t) x.req.a, (size_t) rl); cp.stream[1].erase((size_t) x.res.a, (size_t) sl);
    cp.xchg.erase(cp.xchg.begin() + (long) i);
    for (size_t j = i; j < cp.xchg.size(); j++) {
        Exchange &y = cp.xchg[j];
        y.req.a -= rl; y.req.b -= rl; y.req_head_end -= rl; y.res.a -= sl; y.res.b -= sl; y.res_head_end -= sl;
    }
    // take the bytes out of the schedule too, from the ops that carried them (approximation: trim the totals from the tail)
    long cut[2] = {rl, sl};
    for (size_t k = p.ops.size(); k-- > 0;) {
        Op &op = p.ops[k]; if (op.conn != (int) c) continue;
        int d = op.kind == 'Q' ? 0 : op.kind == 'S' ? 1 : -1; if (d < 0 || cut[d] <= 0) continue;
        long t = std::min(cut[d], op.n); op.n -= t; cut[d] -= t;
    }
    std::vector<Op> keep; for (auto &op : p.ops) if (!((op.kind == 'Q' || op.kind == 'S') && op.n <= 0)) keep.push_back(op);
    p.ops.swap(keep);
}

// remove the bytes [a, b) of one stream, taking them out of the ops that carried them (and out of the exchange extents)
static void delete_range(Plan &p, size_t c, int d, size_t a, size_t b) {
    ConnPlan &cp = p.conns[c];
    if (b > cp.stream[d].size()) b = cp.stream[d].size();
    if (a >= b) return;
    cp.stream[d].erase(a, b - a);
    size_t pos = 0;
    for (auto &op : p.ops) {
        if (op.conn != (int) c) continue;
        int od = (op.kind == 'Q' || op.kind == 'q') ? 0 : (op.kind == 'S' || op.kind == 's') ? 1 : -1;
        if (od != d) continue;
        size_t lo = pos, hi = pos + (size_t) op.n; pos = hi;
        size_t x = std::max(lo, a), y = std::min(hi, b);
        if (y > x) op.n -= (long) (y - x);
    }
    std::vector<Op> keep; for (auto &op : p.ops) if (!((op.kind == 'Q' || op.kind == 'S' || op.kind == 'q' || op.kind == 's') && op.n <= 0)) keep.push_back(op);
    p.ops.swap(keep);
    long n = (long) (b - a);
    auto fix = [&](long &v) { if (v >= (long) b) v -= n; else if (v > (long) a) v = (long) a; };
    for (auto &x : cp.xchg) { if (d == 0) { fix(x.req.a); fix(x.req.b); fix(x.req_head_end); } else { fix(x.res.a); fix(x.res.b); fix(x.res_head_end); } }
}

static int cmd_shrink(int argc, char **argv) {
    if (argc < 3) return 2;
    std::string text, err; Plan p;
    if (!read_file(argv[2], text) || !Plan::parse(text, p, err)) { fprintf(stderr, "bad plan: %s\n", err.c_str()); return 2; }
    g_target = arg_of(argc, argv, "--oracle", "");
    std::string out = arg_of(argc, argv, "--out", (std::string(argv[2]) + ".min").c_str());
    int max_tests = atoi(arg_of(argc, argv, "--max-tests", "2500").c_str());
    double t_shrink0 = now_s(), max_s = atof(arg_of(argc, argv, "--max-s", "120").c_str());   // wall clock bounds the effort only; every accepted step is re-verified
    if (!still_fails(p)) { printf("SHRINK not-reproducible tests=%d\n", g_tests); return 3; }
    bool progress = true;
    // plans of the ground-truth properties must stay inside the well-formed domain: no truncation, only
    // whole exchanges dropped, cuts removed, configuration simplified
    bool domain = p.cfg.get("wellformed", 0) != 0;
    while (progress && g_tests < max_tests) {
        progress = false;
        if (now_s() - t_shrink0 > max_s) break;
        // 1. drop whole exchanges
        for (size_t c = 0; c < p.conns.size(); c++)
            for (size_t i = p.conns[c].xchg.size(); i-- > 0 && g_tests < max_tests;) {
                if (p.conns[c].xchg.size() <= 1) break;
                long ci = p.cfg.get("c16_connect_idx", -1);
                if (ci >= 0 && (long) i == ci) continue;                  // the exchange the scenario is about stays
                Plan q = p; drop_exchange(q, c, i);
                if (ci >= 0 && (long) i < ci) q.cfg.set("c16_connect_idx", ci - 1);
                if (still_fails(q)) { p = q; progress = true; }
            }
        // 3. remove cuts: merge adjacent data ops of one direction (block-wise first, then one by one)
        {
            auto mergeable = [&](const Plan &pl, size_t i) { const Op &a = pl.ops[i], &b = pl.ops[i + 1]; return (a.kind == 'Q' || a.kind == 'S') && a.kind == b.kind && a.conn == b.conn && !a.af && !b.af; };
            size_t ncuts = 0; for (size_t i = 0; i + 1 < p.ops.size(); i++) if (mergeable(p, i)) ncuts++;
            for (size_t gran = std::max<size_t>(1, ncuts / 2); g_tests < max_tests; gran /= 2) {
                size_t k = 0;   // index among mergeable cuts
                for (size_t block = 0; g_tests < max_tests; block++) {
                    // merge the cuts number [block*gran, block*gran+gran) of the current plan
                    Plan q = p; size_t seen = 0, merged = 0; size_t lo = k, hi = k + gran;
                    for (size_t i = 0; i + 1 < q.ops.size();) {
                        if (mergeable(q, i)) {
                            if (seen >= lo && seen < hi) { q.ops[i].n += q.ops[i + 1].n; q.ops.erase(q.ops.begin() + (long) i + 1); merged++; seen++; continue; }
                            seen++;
                        }
                        i++;
                    }
                    if (!merged) break;
                    if (still_fails(q)) { p = q; progress = true; } else k += gran;
                }
                if (gran <= 1) break;
            }
        }
        // 3b. remove cuts across the other direction: merge a data op into the previous data op of the same connection and direction
        //     even when ops of the other direction (or of other connections) lie between them (its bytes then arrive earlier)
        for (size_t i = 0; !domain && i < p.ops.size() && g_tests < max_tests; i++) {
            const Op &a = p.ops[i]; if ((a.kind != 'Q' && a.kind != 'S') || a.af) continue;
            for (;;) {
                size_t j = i + 1; while (j < p.ops.size() && !(p.ops[j].conn == p.ops[i].conn && (p.ops[j].kind == 'Q' || p.ops[j].kind == 'S' || p.ops[j].kind == 'q' || p.ops[j].kind == 's') && ((p.ops[j].kind == 'Q' || p.ops[j].kind == 'q') == (p.ops[i].kind == 'Q')))) j++;
                if (j >= p.ops.size() || j == i + 1 || p.ops[j].kind != p.ops[i].kind || p.ops[j].af || g_tests >= max_tests) break;
                Plan q = p; q.ops[i].n += q.ops[j].n; q.ops.erase(q.ops.begin() + (long) j);
                if (still_fails(q)) { p = q; progress = true; } else break;
            }
        }
        // 2. ddmin over the op list (after the merges: deleting an op shifts the bytes of all later ops, merging does not)
        for (size_t gran = std::max<size_t>(1, p.ops.size() / 2); !domain && gran >= 1 && g_tests < max_tests; gran /= 2) {
            for (size_t at = 0; at < p.ops.size() && g_tests < max_tests;) {
                Plan q = p; size_t e = std::min(q.ops.size(), at + gran);
                q.ops.erase(q.ops.begin() + (long) at, q.ops.begin() + (long) e);
                if (!q.ops.empty() && still_fails(q)) { p = q; progress = true; } else at += gran;
            }
            if (gran == 1) break;
        }
        // 4. drop faults and configuration choices
        for (size_t i = p.cbs.size(); i-- > 0 && g_tests < max_tests;) { Plan q = p; q.cbs.erase(q.cbs.begin() + (long) i); if (still_fails(q)) { p = q; progress = true; } }
        {
            std::vector<std::string> keys; for (auto &kv : p.cfg.kv) keys.push_back(kv.first);
            for (auto &k : keys) { if (g_tests >= max_tests) break; if (k == "wellformed" || k == "skeleton" || k == "scn" || k.compare(0, 4, "c16_") == 0 || k.compare(0, 4, "c11_") == 0 || k.compare(0, 4, "c07_") == 0 || k.compare(0, 4, "c14_") == 0 || k.compare(0, 4, "c08_") == 0 || k.compare(0, 4, "c10_") == 0 || k == "auto_destroy" || k == "disposal" || k == "res_decomp" || k == "req_decomp" || (k == "log_level" && p.prop == "C10") || k == "clock_step") continue; Plan q = p; q.cfg.kv.erase(k); if (still_fails(q)) { p = q; progress = true; } }
        }
        // 5. drop unused tail bytes of the streams, then try shortening from the end
        for (size_t c = 0; !domain && c < p.conns.size(); c++) for (int d = 0; d < 2; d++) {
            long used = 0; for (auto &op : p.ops) if (op.conn == (int) c && ((d == 0 && (op.kind == 'Q' || op.kind == 'q')) || (d == 1 && (op.kind == 'S' || op.kind == 's')))) used += op.n;
            if (used < (long) p.conns[c].stream[d].size() && g_tests < max_tests) { Plan q = p; q.conns[c].stream[d].resize((size_t) used); if (still_fails(q)) { p = q; progress = true; } }
        }
    }
    // 6. (plans without ground truth only) shrink the streams themselves: delete blocks of lines, halving the block size
    for (size_t c = 0; !domain && c < p.conns.size(); c++) for (int d = 0; d < 2; d++) {
        for (size_t gran = 0;;) {
            std::vector<size_t> ls; ls.push_back(0);
            { const Bytes &st = p.conns[c].stream[d]; for (size_t i = 0; i < st.size(); i++) if (st[i] == '\n' && i + 1 < st.size()) ls.push_back(i + 1); ls.push_back(st.size()); }
            size_t nl = ls.size() - 1;
            if (nl == 0) break;
            if (gran == 0) gran = std::max<size_t>(1, nl / 2);
            bool any = false;
            for (size_t at = 0; at < nl && g_tests < max_tests && now_s() - t_shrink0 < max_s;) {
                size_t e = std::min(nl, at + gran);
                Plan q = p; delete_range(q, c, d, ls[at], ls[e]);
                if (!q.ops.empty() && still_fails(q)) {
                    p = q; any = true;
                    ls.clear(); ls.push_back(0); { const Bytes &st = p.conns[c].stream[d]; for (size_t i = 0; i < st.size(); i++) if (st[i] == '\n' && i + 1 < st.size()) ls.push_back(i + 1); ls.push_back(st.size()); }
                    nl = ls.size() - 1;
                } else at += gran;
            }
            (void) any;
            if (gran == 1 || g_tests >= max_tests || now_s() - t_shrink0 >= max_s) break;
            gran /= 2;
        }
    }
    p.scenario = p.scenario.empty() ? "minimised" : p.scenario + "+minimised";
    write_file(out, p.serialize());
    printf("SHRINK ok tests=%d ops=%zu bytes=%zu out=%s\n", g_tests, p.ops.size(), p.size_measure(), out.c_str());
    return 0;
}

int main(int argc, char **argv) {
    setvbuf(stdout, NULL, _IOLBF, 0);
    seams_load_watch_list();
    {   // known-finding call sites (from known_findings.json via the driver, or VERIF_KNOWN for manual replays)
        std::string k = arg_of(argc, argv, "--known", getenv("VERIF_KNOWN") ? getenv("VERIF_KNOWN") : "");
        size_t pos = 0;
        while (pos <= k.size() && !k.empty()) { size_t e = k.find(',', pos); if (e == std::string::npos) e = k.size(); if (e > pos) g_known_sites.insert(k.substr(pos, e - pos)); pos = e + 1; }
    }
    if (argc < 2) { fprintf(stderr, "usage: htpsim run|emit|replay|shrink ...\n"); return 2; }
    std::string cmd = argv[1];
    if (cmd == "run") return cmd_run(argc, argv);
    if (cmd == "emit") return cmd_emit(argc, argv);
    if (cmd == "replay") return cmd_replay(argc, argv);
    if (cmd == "shrink") return cmd_shrink(argc, argv);
    fprintf(stderr, "unknown command %s\n", cmd.c_str());
    return 2;
}

#include "gen.h"
#include <dirent.h>
#include <set>
#include <zlib.h>
#include <lzma.h>

// ------------------------------------------------------------------------------------------------
// serialisation and the reference model

static Bytes header_line(const HeaderSpec &h, const std::string &eol) {
    Bytes o = h.name + ":" + h.ows1 + h.value + h.ows2 + eol;
    for (auto &f : h.folds) o += f + eol;
    return o;
}

Serialized serialize_msg(const MsgSpec &m) {
    Serialized s;
    Bytes &o = s.bytes;
    o += m.interim;
    o += m.lead;
    if (m.is_request) o += m.method + " " + m.target + " " + m.version + m.eol;
    else o += m.version + " " + strfmt("%d", m.status) + (m.reason.empty() ? std::string("") : " " + m.reason) + m.eol;
    for (auto &h : m.headers) o += header_line(h, m.eol);
    o += m.eol;
    s.head_end = (long) o.size();
    size_t body_start = o.size();
    if (m.head_response || m.body_withheld) { s.body_wire_len = 0; return s; }
    switch (m.framing) {
        case FR_NONE: break;
        case FR_CL: case FR_CLOSE: o += m.body; break;
        case FR_CHUNKED: {
            size_t pos = 0, i = 0;
            while (pos < m.body.size()) {
                size_t n = i < m.chunk_sizes.size() ? m.chunk_sizes[i] : m.body.size() - pos;
                if (n == 0 || n > m.body.size() - pos) n = m.body.size() - pos;
                o += m.chunk_fmt == 1 ? strfmt("%zX", n) : m.chunk_fmt == 2 ? strfmt("%0*zx", (int) (1 + (n + i) % 4), n) : strfmt("%zx", n);
                if (i < m.chunk_ext.size()) o += m.chunk_ext[i];
                o += "\r\n";
                o += m.body.substr(pos, n);
                o += "\r\n";
                pos += n; i++;
            }
            o += "0";
            if (i < m.chunk_ext.size()) o += m.chunk_ext[i];
            o += "\r\n";
            s.body_wire_len = (long) (o.size() - body_start);
            for (auto &h : m.trailers) o += header_line(h, m.eol);
            o += "\r\n";
            return s;
        }
    }
    s.body_wire_len = (long) (o.size() - body_start);
    return s;
}

static Bytes trim_lws(const Bytes &v) {
    size_t a = 0, b = v.size();
    while (a < b && (v[a] == ' ' || v[a] == '\t')) a++;
    while (b > a && (v[b - 1] == ' ' || v[b - 1] == '\t')) b--;
    return v.substr(a, b - a);
}

// what "folded lines joined, repeated fields combined" means, executed on the spec (never on bytes)
std::vector<std::pair<std::string, Bytes>> reference_headers(const MsgSpec &m) {
    std::vector<std::pair<std::string, Bytes>> out;
    auto add = [&](const HeaderSpec &h) {
        Bytes v = h.ows1 + h.value + h.ows2;
        for (auto &f : h.folds) v += f;          // continuation keeps its leading white space
        v = trim_lws(v);
        std::string ln = lower(h.name);
        for (auto &e : out) if (lower(e.first) == ln) {
            if (ln == "content-length") return;   // identical repeated C-L is not combined (never generated in C02's domain)
            e.second += ", " + v; return;
        }
        out.push_back(std::make_pair(h.name, v));
    };
    for (auto &h : m.headers) add(h);
    if (m.framing == FR_CHUNKED && !m.head_response) for (auto &h : m.trailers) add(h);
    return out;
}

// ------------------------------------------------------------------------------------------------
// random material

static const char *METHODS_SAFE[] = {"GET", "POST", "PUT", "DELETE", "OPTIONS", "PATCH", "TRACE", "PROPFIND", "MKCOL", "COPY", "MOVE",
                                     "LOCK", "UNLOCK", "REPORT", "CHECKOUT", "MERGE", "HEAD"};
static const char *HDR_POOL[] = {"Accept", "Accept-Language", "User-Agent", "Referer", "X-Forwarded-For", "Cache-Control", "Pragma", "Via",
                                 "X-Requested-With", "If-None-Match", "Accept-Charset", "Date", "Server", "ETag", "Vary", "X-Frame-Options",
                                 "Last-Modified", "Age", "Warning", "X-Powered-By", "Set-Cookie", "Location", "Allow", "Retry-After"};
static const char TOKCH[] = "abcdefghijklmnopqrstuvwxyzABCDEFGHIJKLMNOPQRSTUVWXYZ0123456789-_";
static const char VALCH[] = "abcdefghijklmnopqrstuvwxyzABCDEFGHIJKLMNOPQRSTUVWXYZ0123456789-_.;=/,()*+ \"'<>@[]{}!#$%&^~|?";

static std::string rand_token(Rng &r, size_t lo, size_t hi) {
    size_t n = (size_t) r.range((int64_t) lo, (int64_t) hi); std::string s;
    for (size_t i = 0; i < n; i++) s.push_back(TOKCH[r.below(sizeof TOKCH - 1)]);
    if (!s.empty() && s[0] == '-') s[0] = 'x';
    return s;
}
static Bytes rand_value(Rng &r, size_t lo, size_t hi, bool allow_colon) {
    size_t n = (size_t) r.range((int64_t) lo, (int64_t) hi); Bytes s;
    for (size_t i = 0; i < n; i++) { char c = VALCH[r.below(sizeof VALCH - 1)]; if (c == ':' && !allow_colon) c = 'c'; s.push_back(c); }
    if (allow_colon && n > 2 && r.chance(1, 6)) s[r.below(n)] = ':';
    // no leading/trailing white space in the value proper (OWS is generated separately)
    while (!s.empty() && s[0] == ' ') s.erase(0, 1);
    while (!s.empty() && s[s.size() - 1] == ' ') s.erase(s.size() - 1);
    return s;
}

static const char *HOSTILE_BODIES[] = {"\r", "\n", "\r\n", "\r\n\r\n", "\n\r", "\r\r\n", "0\r\n\r\n", "GET / HTTP/1.1\r\n\r\n", "HTTP/1.1 200 OK\r\n\r\n",
                                       "5\r\nhello\r\n", "\x00", "POST /x HTTP/1.0\r\nContent-Length: 5\r\n\r\n", "\r\nHTTP/1.0 404 Not Found\r\n", " ", "\t",
                                       "a\r\n", "ffffffff\r\n", "--", "Host: evil\r\n", "\r\nGET"};

static Bytes rand_body(Rng &r, const GenFeatures &f, size_t maxlen) {
    Bytes b;
    int kind = (int) r.below(f.hostile_body ? 6 : 3);
    size_t n = (size_t) r.range(1, (int64_t) std::max<size_t>(1, maxlen));
    switch (kind) {
        case 0: for (size_t i = 0; i < n; i++) b.push_back((char) ('a' + r.below(26))); break;
        case 1: for (size_t i = 0; i < n; i++) b.push_back((char) r.below(256)); break;
        case 2: for (size_t i = 0; i < n; i++) b.push_back("ab \r\n:0"[r.below(7)]); break;
        default: {
            int parts = (int) r.range(1, 4);
            for (int i = 0; i < parts; i++) {
                if (r.coin()) { const char *h = HOSTILE_BODIES[r.below(sizeof HOSTILE_BODIES / sizeof *HOSTILE_BODIES)]; size_t hl = strlen(h); if (hl == 0) hl = 1; b.append(h, hl); }
                else b += rand_token(r, 1, 12);
            }
            break;
        }
    }
    if (b.empty()) b = "x";
    return b;
}

static std::string pct_encode(Rng &r, const Bytes &s, bool plus_for_space) {
    static const char *hx = "0123456789ABCDEFabcdef";
    std::string o;
    for (unsigned char c : s) {
        bool safe = (c >= 'a' && c <= 'z') || (c >= 'A' && c <= 'Z') || (c >= '0' && c <= '9') || c == '-' || c == '_' || c == '.';
        if (c == ' ' && plus_for_space) { o.push_back('+'); continue; }
        if (safe && !r.chance(1, 8)) o.push_back((char) c);
        else { o.push_back('%'); bool up = r.coin(); o.push_back(up ? hx[c >> 4] : (char) tolower(hx[c >> 4])); o.push_back(up ? hx[c & 15] : (char) tolower(hx[c & 15])); }
    }
    return o;
}

static std::string b64(const Bytes &in) {
    static const char *t = "ABCDEFGHIJKLMNOPQRSTUVWXYZabcdefghijklmnopqrstuvwxyz0123456789+/";
    std::string o; size_t i = 0;
    while (i + 2 < in.size()) {
        unsigned v = ((unsigned char) in[i] << 16) | ((unsigned char) in[i + 1] << 8) | (unsigned char) in[i + 2];
        o.push_back(t[v >> 18]); o.push_back(t[(v >> 12) & 63]); o.push_back(t[(v >> 6) & 63]); o.push_back(t[v & 63]); i += 3;
    }
    if (i + 1 == in.size()) { unsigned v = (unsigned char) in[i] << 16; o.push_back(t[v >> 18]); o.push_back(t[(v >> 12) & 63]); o += "=="; }
    else if (i + 2 == in.size()) { unsigned v = ((unsigned char) in[i] << 16) | ((unsigned char) in[i + 1] << 8); o.push_back(t[v >> 18]); o.push_back(t[(v >> 12) & 63]); o.push_back(t[(v >> 6) & 63]); o.push_back('='); }
    return o;
}

static void add_random_headers(Rng &r, const GenFeatures &f, MsgSpec &m, bool is_response) {
    int n = (int) r.range(0, 6);
    if (f.many_headers && r.chance(1, 12)) n = (int) r.range(30, 70);   // grow the 32-entry table
    std::vector<std::string> used;
    for (int i = 0; i < n; i++) {
        HeaderSpec h;
        if (f.repeat && !used.empty() && r.chance(1, 5)) {
            h.name = used[r.below(used.size())];
            if (r.coin()) for (auto &c : h.name) if (r.coin()) c = (char) (isupper((unsigned char) c) ? tolower(c) : toupper(c));   // case-insensitive match
        } else if (r.coin()) h.name = HDR_POOL[r.below(sizeof HDR_POOL / sizeof *HDR_POOL)];
        else h.name = "X-" + rand_token(r, 1, 10);
        used.push_back(h.name);
        bool fold = f.fold && r.chance(1, 6);
        // response continuation lines containing ':' are deliberately re-interpreted by libhtp (htp_response.c invalid-folding rule)
        h.value = rand_value(r, r.chance(1, 10) ? 0 : 1, 24, true);
        if (f.many_headers && r.chance(1, 150)) h.value = rand_value(r, 1000, 8000, true);   // a line that takes many small chunks to assemble (below the soft limit)
        static const char *OWS[] = {"", " ", "\t", "  ", " \t"};
        h.ows1 = OWS[r.below(5)]; h.ows2 = r.chance(1, 4) ? OWS[r.below(5)] : "";
        if (fold) {
            int k = (int) r.range(1, 3);
            for (int j = 0; j < k; j++) {
                Bytes c = rand_value(r, 1, 16, !is_response);
                if (c.empty()) c = "c";
                h.folds.push_back((r.coin() ? " " : "\t") + c);
            }
        }
        m.headers.push_back(h);
    }
}

static void set_body(Rng &r, const GenFeatures &f, MsgSpec &m, bool allow_close) {
    int k = (int) r.below(10);
    size_t maxb = (size_t) f.max_body;
    if (r.chance(1, 20)) maxb = 20000;   // sometimes larger than one output/buffer unit
    if (k < 3) {
        m.framing = FR_NONE;
        // a coding announced on a message without body: the decoder set up for it has nothing to do and must still be torn down
        if (f.content_coding && r.chance(1, 6)) { HeaderSpec ce; ce.name = "Content-Encoding"; static const char *V[] = {"gzip", "deflate", "lzma", "gzip, deflate"}; ce.value = V[r.below(4)]; m.headers.push_back(ce); }
        return;
    }
    m.body = rand_body(r, f, maxb);
    m.payload = m.body;
    if (f.content_coding && r.chance(1, 3)) {
        // a content coding on either side (request bodies are decoded when the configuration enables it); no ground truth is
        // derived from these messages: only scenarios without expectations switch the feature on
        HeaderSpec ce; ce.name = r.chance(1, 4) ? "content-encoding" : "Content-Encoding";
        switch (r.below(6)) {
            case 0: m.body = z_encode(m.payload, 31, 6, r.chance(1, 3) ? (int) r.below(16) : 0); ce.value = r.coin() ? "gzip" : "x-gzip"; break;
            case 1: m.body = z_encode(m.payload, -15, 6, 0); ce.value = "deflate"; break;
            case 2: m.body = z_encode(m.payload, 15, 6, 0); ce.value = "deflate"; break;
            case 3: m.body = lzma_alone_encode(m.payload, 1u << 16); ce.value = "lzma"; break;
            case 4: m.body = z_encode(z_encode(m.payload, 31, 6, 0), -15, 6, 0); ce.value = "deflate, gzip"; break;
            default: ce.value = r.coin() ? "gzip" : "deflate"; break;   // announced, not applied
        }
        if (r.chance(1, 6) && m.body.size() > 4) m.body.resize(m.body.size() - (size_t) r.range(1, std::min<int64_t>(12, (int64_t) m.body.size() - 1)));   // coded stream cut short
        m.headers.push_back(ce);
    }
    if (allow_close && f.close_delim && k == 3) { m.framing = FR_CLOSE; return; }
    if (f.chunked && k < 7 && m.version == "HTTP/1.1") {
        m.framing = FR_CHUNKED;
        if (r.chance(1, 3)) m.chunk_fmt = (int) r.range(1, 2);
        size_t left = m.body.size();
        int style = (int) r.below(4);
        while (left > 0) {
            size_t n = style == 0 ? left : style == 1 ? 1 : (size_t) r.range(1, (int64_t) std::max<size_t>(1, left));
            if (style == 3) n = std::min<size_t>(left, (size_t) r.range(1, 17));
            m.chunk_sizes.push_back(n); left -= n;
            if (m.chunk_sizes.size() > 400) { m.chunk_sizes.push_back(left); break; }
        }
        if (f.chunk_ext && r.chance(1, 4)) for (size_t i = 0; i <= m.chunk_sizes.size(); i++) m.chunk_ext.push_back(r.coin() ? ";ext=" + rand_token(r, 1, 5) : "");
        if (f.trailers && r.chance(1, 3)) {
            int n = (int) r.range(1, 3);
            for (int i = 0; i < n; i++) { HeaderSpec h; h.name = "X-Trailer-" + rand_token(r, 1, 4); h.value = rand_value(r, 1, 10, false); m.trailers.push_back(h); }
        }
        HeaderSpec te; te.name = r.chance(1, 4) ? "transfer-encoding" : "Transfer-Encoding"; te.value = r.chance(1, 5) ? "Chunked" : "chunked";
        m.headers.insert(m.headers.begin() + (long) r.below(m.headers.size() + 1), te);
        return;
    }
    m.framing = FR_CL;
    HeaderSpec cl; cl.name = r.chance(1, 4) ? "content-length" : "Content-Length"; cl.value = r.chance(1, 10) ? strfmt("%0*zu", (int) r.range(2, 6), m.body.size()) : strfmt("%zu", m.body.size());   // 1*DIGIT: leading zeros are legal
    m.headers.insert(m.headers.begin() + (long) r.below(m.headers.size() + 1), cl);
}

Script random_script(Rng &r, const GenFeatures &f, int n, int id_base) {
    Script s;
    for (int i = 0; i < n; i++) {
        int id = id_base + i;
        MsgSpec q; q.is_request = true;
        q.method = METHODS_SAFE[r.below(sizeof METHODS_SAFE / sizeof *METHODS_SAFE)];
        if (!f.head && q.method == "HEAD") q.method = "GET";
        if (!f.put && q.method == "PUT") q.method = "POST";
        q.version = (f.http10 && r.chance(1, 6)) ? "HTTP/1.0" : "HTTP/1.1";
        std::string host = "h" + rand_token(r, 1, 6) + ".example";
        for (auto &c : host) c = (char) tolower((unsigned char) c);
        if (r.chance(1, 25)) { static const char *V6[] = {"[::1]", "[2001:db8::1]", "[fe80::1]", "[::ffff:192.0.2.1]"}; host = V6[r.below(4)]; }   // IP-literal hosts are well-formed (RFC 3986 3.2.2)
        if (f.wild_host && r.chance(1, 10)) {
            // a bracketed host literal whose length sits on the usual buffer-size edges (scenarios without ground truth only)
            static const int EDGE[] = {0, 1, 2, 15, 16, 17, 38, 39, 40, 44, 45, 46, 47, 48, 63, 64, 65, 127, 128, 129, 255, 256, 257};
            int L = r.chance(1, 4) ? (int) r.range(0, 80) : EDGE[r.below(sizeof EDGE / sizeof *EDGE)];
            static const char HX[] = "0123456789abcdefABCDEF::::..%";
            host = "["; for (int i = 0; i < L; i++) host.push_back(HX[r.below(sizeof HX - 1)]); host += "]";
        }
        std::string path = "/id" + strfmt("%d", id) + "/" + rand_token(r, 0, 8);
        if (f.wild_path && r.chance(1, 2)) {
            // pieces the path decoder treats specially; no '?', '#', space or control byte, so the target stays one request-line token
            static const char *W[] = {"%2f", "%2F", "%5c", "\\", "//", "/./", "/../", "/..", "/.", "%2e", "%2e%2e/", "%u002f", "%u2215", "%uff0f", "%uFF21", "%u0041", "%u00e9",
                                      "%c0%af", "%e0%80%af", "%f0%80%80%af", "\xc0\xaf", "\xe0\x80\xaf", "\xc3\xa9", "\xef\xbc\x8f", "\xf0\x9f\x98\x80", "\xff", "\x80", "\xc3",
                                      "%00", "%", "%4", "%zz", "%u", "%u1", "%u12", "%u123", "%u12g4", "%uzzzz", "%25", "%252f", "+", ";p=1", ":", "@", "A", "Z", "%41", "%7e", "~", "%80", "%ff", "%0a", "%7f", "%01"};
            int k = (int) r.range(1, 7);
            for (int j = 0; j < k; j++) { path += W[r.below(sizeof W / sizeof *W)]; if (r.chance(1, 3)) path += rand_token(r, 1, 4); }
        }
        std::string query;
        std::vector<std::pair<Bytes, Bytes>> qparams, bparams;
        if (f.query && r.chance(1, 2)) {
            int k = (int) r.range(1, 4);
            for (int j = 0; j < k; j++) {
                Bytes name = rand_token(r, 1, 6), val = r.chance(1, 6) ? Bytes() : rand_value(r, 1, 10, true);
                qparams.push_back(std::make_pair(name, val));
                if (j) query += "&";
                // (a piece without '=' is a name with an empty value: the reference rule of C15)
                query += pct_encode(r, name, true) + ((val.empty() && r.chance(1, 3)) ? std::string() : "=" + pct_encode(r, val, true));
            }
        }
        bool absolute = f.absolute_uri && r.chance(1, 5);
        int port = r.chance(1, 3) ? (int) r.range(1, 65535) : -1;
        if (port >= 0 && r.chance(1, 3)) { static const int EDGE[] = {1, 9, 10, 80, 99, 100, 443, 999, 1000, 8080, 9999, 10000, 65534, 65535}; port = EDGE[r.below(sizeof EDGE / sizeof *EDGE)]; }   // the ends of the range and every digit count
        std::string authority = host + (port >= 0 ? strfmt(":%d", port) : std::string());
        q.target = (absolute ? "http://" + authority : std::string()) + path + (query.empty() ? "" : "?" + query);
        add_random_headers(r, f, q, false);
        bool host_hdr = q.version == "HTTP/1.1" || r.coin();
        if (host_hdr) { HeaderSpec h; h.name = r.chance(1, 5) ? "host" : "Host"; h.value = authority; q.headers.insert(q.headers.begin() + (long) r.below(q.headers.size() + 1), h); }
        std::vector<std::pair<Bytes, Bytes>> cookies;
        if (f.cookies && r.chance(1, 4)) {
            HeaderSpec h; h.name = "Cookie"; int k = (int) r.range(1, 4);
            for (int j = 0; j < k; j++) { Bytes nm = rand_token(r, 1, 6), v = r.chance(1, 5) ? Bytes() : Bytes(rand_token(r, 1, 8)); cookies.push_back(std::make_pair(nm, v)); if (j) h.value += "; "; h.value += nm + ((v.empty() && r.chance(1, 3)) ? std::string() : "=" + v); }   // a cookie without '=' is a name with an empty value
            q.headers.insert(q.headers.begin() + (long) r.below(q.headers.size() + 1), h);
        }
        int auth = 0; Bytes user, pass;
        if (f.auth && r.chance(1, 5)) {
            HeaderSpec h; h.name = "Authorization";
            user = rand_token(r, 1, 8); pass = rand_value(r, 0, 8, true);
            if (r.coin()) { auth = 2; h.value = std::string(r.coin() ? "Basic " : "basic ") + b64(user + ":" + pass); }
            else {
                // Digest: the user name is a quoted-string; '"' and '\\' inside it travel as quoted-pairs, and a sender may
                // escape any other character too (RFC 7230 3.2.6): the reported name is the unescaped one
                auth = 3; pass.clear();
                if (r.chance(1, 3)) { size_t k = (size_t) r.range(1, 3); for (size_t j = 0; j < k; j++) user.insert((size_t) r.below(user.size() + 1), 1, r.coin() ? '\\' : (r.coin() ? '"' : ' ')); }
                std::string quoted; bool more = r.chance(1, 4);
                for (char ch : user) { if (ch == '\\' || ch == '"' || (more && ch != ' ' && r.chance(1, 4))) quoted += '\\'; quoted += ch; }
                switch (r.below(4)) {
                    case 0: h.value = "Digest username=\"" + quoted + "\", realm=\"r\""; break;
                    case 1: h.value = "Digest realm=\"r\", username=\"" + quoted + "\""; break;
                    case 2: h.value = "Digest username= \"" + quoted + "\""; break;
                    default: h.value = "digest username=\"" + quoted + "\", nonce=\"abc\\\"def\", uri=\"/x\""; break;
                }
            }
            q.headers.insert(q.headers.begin() + (long) r.below(q.headers.size() + 1), h);
        }
        bool may_body = q.method != "GET" && q.method != "HEAD" && q.method != "TRACE" && q.method != "OPTIONS" && q.method != "DELETE";
        if (may_body) {
            if (f.urlenc_body && q.method == "POST" && r.chance(1, 3)) {
                Bytes body; int k = (int) r.range(1, 4);
                for (int j = 0; j < k; j++) { Bytes nm = rand_token(r, 1, 6), v = rand_value(r, 0, 10, true); bparams.push_back(std::make_pair(nm, v)); if (j) body += "&"; body += pct_encode(r, nm, true) + "=" + pct_encode(r, v, true); }
                HeaderSpec ct; ct.name = "Content-Type"; ct.value = "application/x-www-form-urlencoded"; q.headers.push_back(ct);
                q.body = q.payload = body; q.framing = FR_CL;
                HeaderSpec cl; cl.name = "Content-Length"; cl.value = strfmt("%zu", body.size()); q.headers.push_back(cl);
            } else set_body(r, f, q, false);
        }
        // ---- response
        MsgSpec p; p.is_request = false;
        p.version = (f.http10 && r.chance(1, 8)) ? "HTTP/1.0" : "HTTP/1.1";
        static const int ST[] = {200, 200, 200, 201, 202, 204, 301, 302, 304, 400, 403, 404, 500, 503, 206, 299};
        p.status = ST[r.below(sizeof ST / sizeof *ST)];
        static const char *RS[] = {"OK", "Not Found", "Moved Permanently", "No Content", "Internal Server Error", "x", "Some  Reason Phrase", ""};
        p.reason = RS[r.below(sizeof RS / sizeof *RS)];
        add_random_headers(r, f, p, true);
        { HeaderSpec h; h.name = "X-Sim-Id"; h.value = strfmt("%d", id); p.headers.insert(p.headers.begin() + (long) r.below(p.headers.size() + 1), h); }
        if (q.method == "HEAD") {
            p.head_response = true;
            if (r.coin()) { HeaderSpec cl; cl.name = "Content-Length"; cl.value = strfmt("%d", (int) r.range(0, 5000)); p.headers.push_back(cl); }
        } else if (p.status == 204 || p.status == 304) {
            p.framing = FR_NONE;
        } else {
            set_body(r, f, p, i == n - 1);
            if (p.framing == FR_NONE && p.status != 204 && p.status != 304) {
                // a response without framing headers is close-delimited: make the empty body explicit unless last
                HeaderSpec cl; cl.name = "Content-Length"; cl.value = "0"; p.headers.push_back(cl); p.framing = FR_CL;
            }
        }
        if (f.interim100 && may_body && q.framing != FR_NONE && r.chance(1, 8)) {
            HeaderSpec e; e.name = "Expect"; e.value = "100-continue"; q.headers.push_back(e);
            if (p.status < 400 || p.status > 499)   // a 4xx answer to Expect is handled specially (request body not expected), see gen.h notes
                // (an interim response may carry fields of its own; they belong to it, not to the final response)
                p.interim = r.coin() ? Bytes("HTTP/1.1 100 Continue\r\n\r\n") : Bytes("HTTP/1.1 100 Continue\r\nX-Interim: ") + rand_token(r, 1, 6) + "\r\n" + (r.coin() ? "Server: sim\r\n" : "") + "\r\n";
            // a 4xx final answer and no interim one: the client did not wait and sent its body all the same (the variant in which
            // it waits and never sends the body needs the response to be seen first; it is built by the scenarios that own the schedule)
            else if (f.expect_withheld && q.framing == FR_CL && !q.body.empty() && bparams.empty() && r.coin()) q.body_withheld = true;   // the client waited, and gave up on the 4xx
            else if (r.coin()) { q.headers.pop_back(); }
        }
        // derived ground truth, computed from what the actor chose (never from bytes)
        q.xexpect.push_back(std::make_pair("@host.ci", (absolute || host_hdr) ? host : Bytes("<null>")));
        q.xexpect.push_back(std::make_pair("req.port", (absolute || host_hdr) ? strfmt("%d", port) : std::string("-1")));
        if (!cookies.empty()) {
            q.xexpect.push_back(std::make_pair("req.cookie.count", strfmt("%zu", cookies.size())));
            for (size_t j = 0; j < cookies.size(); j++) {
                q.xexpect.push_back(std::make_pair(strfmt("req.cookie.%zu.name", j), cookies[j].first));
                q.xexpect.push_back(std::make_pair(strfmt("req.cookie.%zu.value", j), cookies[j].second));
            }
        }
        q.xexpect.push_back(std::make_pair("req.auth.type", strfmt("%d", auth ? auth : 1)));
        if (auth) q.xexpect.push_back(std::make_pair("req.auth.user", user));
        if (auth == 2) q.xexpect.push_back(std::make_pair("req.auth.pass", pass));
        {
            size_t k = 0;
            for (auto &pr : qparams) {
                q.xexpect.push_back(std::make_pair(strfmt("req.param.%zu.name", k), pr.first)); q.xexpect.push_back(std::make_pair(strfmt("req.param.%zu.value", k), pr.second));
                q.xexpect.push_back(std::make_pair(strfmt("req.param.%zu.source", k), "1")); k++;
            }
            for (auto &pr : bparams) {
                q.xexpect.push_back(std::make_pair(strfmt("req.param.%zu.name", k), pr.first)); q.xexpect.push_back(std::make_pair(strfmt("req.param.%zu.value", k), pr.second));
                q.xexpect.push_back(std::make_pair(strfmt("req.param.%zu.source", k), "3")); k++;
            }
            q.xexpect.push_back(std::make_pair("@param.count", strfmt("%zu", k)));
        }
        s.req.push_back(q); s.res.push_back(p);
    }
    return s;
}

// ------------------------------------------------------------------------------------------------
// turning a script into a connection plan (streams + extents + expectations)

static void expect_common_headers(Exchange &x, const char *pfx, const MsgSpec &m) {
    auto ref = reference_headers(m);
    std::string p = pfx;
    x.expect.push_back(std::make_pair(p + ".count", strfmt("%zu", ref.size())));
    for (size_t i = 0; i < ref.size(); i++) {
        x.expect.push_back(std::make_pair(p + strfmt(".%zu.name", i), ref[i].first));
        x.expect.push_back(std::make_pair(p + strfmt(".%zu.value", i), ref[i].second));
    }
}

void build_conn_from_script(Rng &rng, const Script &s, ConnPlan &cp, bool with_expect) {
    (void) rng;
    cp = ConnPlan();
    for (size_t i = 0; i < s.req.size(); i++) {
        Exchange x;
        Serialized a = serialize_msg(s.req[i]);
        x.req.a = (long) cp.stream[0].size(); cp.stream[0] += a.bytes; x.req.b = (long) cp.stream[0].size();
        x.req_head_end = x.req.a + a.head_end;
        Serialized b;
        if (i < s.res.size()) {
            b = serialize_msg(s.res[i]);
            x.res.a = (long) cp.stream[1].size(); cp.stream[1] += b.bytes; x.res.b = (long) cp.stream[1].size();
            x.res_head_end = x.res.a + b.head_end;
        }
        if (with_expect) {
            const MsgSpec &q = s.req[i];
            // (blanks before the method: skipped, or - personalities that count them as an anomaly - kept as part of the method)
            x.expect.push_back(std::make_pair(q.lead.empty() ? "req.method" : "@method.nolead", q.method));
            x.expect.push_back(std::make_pair("req.uri", q.target));
            x.expect.push_back(std::make_pair("req.protocol", q.version));
            x.expect.push_back(std::make_pair("req.protocol_num", q.version == "HTTP/1.1" ? "101" : "100"));
            expect_common_headers(x, "req.hdr", q);
            x.expect.push_back(std::make_pair("@body.req", (q.framing == FR_NONE || q.body_withheld) ? Bytes() : q.payload));
            // the client of the previous exchange waited for its answer (Expect: 100-continue, refused): this request follows it
            if (i > 0 && s.req[i - 1].body_withheld) x.expect.push_back(std::make_pair("@req_after_prev_res", Bytes("1")));
            // "Expect: 100-continue", a 4xx answer, and the client sends the body all the same: a parser that sees the refusal before
            // any body byte cannot know that (the library assumes the body will not come): this answer is offered only after at least one body byte
            if (i < s.res.size() && s.res[i].status >= 400 && s.res[i].status <= 499 && !q.body_withheld) for (auto &h : q.headers) if (h.name == "Expect") { x.expect.push_back(std::make_pair("@no_early_response", Bytes("1"))); break; }
            x.expect.push_back(std::make_pair("@msglen.req", strfmt("%ld", a.body_wire_len)));
            if (i < s.res.size()) {
                const MsgSpec &p = s.res[i];
                x.expect.push_back(std::make_pair("res.protocol", p.version));
                x.expect.push_back(std::make_pair("res.status", strfmt("%d", p.status)));
                x.expect.push_back(std::make_pair("res.status_num", strfmt("%d", p.status)));
                if (!p.reason.empty()) x.expect.push_back(std::make_pair("res.message", p.reason));
                expect_common_headers(x, "res.hdr", p);
                x.expect.push_back(std::make_pair("@body.res", (p.framing == FR_NONE || p.head_response) ? Bytes() : p.payload));
                x.expect.push_back(std::make_pair("@msglen.res", strfmt("%ld", b.body_wire_len)));
                x.expect.push_back(std::make_pair("@hasbody.res", (p.framing == FR_NONE || p.head_response) ? "0" : "1"));
            }
            x.expect.push_back(std::make_pair("@hasbody.req", q.framing == FR_NONE ? "0" : "1"));
            for (auto &e : q.xexpect) x.expect.push_back(e);
        }
        cp.xchg.push_back(x);
    }
}

// ------------------------------------------------------------------------------------------------
// the wire: segmentation strategies and interleaving

std::vector<size_t> choose_cuts(Rng &rng, const Bytes &stream, const std::vector<Extent> &msgs, int strategy, size_t param) {
    std::set<size_t> cuts;
    size_t n = stream.size();
    if (n < 2) return std::vector<size_t>();
    auto add = [&](size_t p) { if (p > 0 && p < n) cuts.insert(p); };
    switch (strategy) {
        case ST_WHOLE: for (auto &m : msgs) { add((size_t) m.a); add((size_t) m.b); } break;
        case ST_UNIFORM: { size_t mean = param ? param : 8; size_t p = 0; while (p < n) { p += rng.geom(mean); add(p); } break; }
        case ST_STORM: {
            // one-byte chunks inside a window, larger ones elsewhere
            size_t w0 = (size_t) rng.below(n), w1 = std::min(n, w0 + (size_t) rng.range(8, 200));
            size_t p = 0;
            while (p < n) { p += (p >= w0 && p < w1) ? 1 : rng.geom(param ? param : 64); add(p); }
            break;
        }
        case ST_BIASED: {
            // cuts near structure: CR, LF, ':', boundaries of messages, digits of chunk-size lines
            std::vector<size_t> hot;
            for (size_t i = 0; i < n; i++) { unsigned char c = (unsigned char) stream[i]; if (c == '\r' || c == '\n' || c == ':' || c == ' ' || c == '-') hot.push_back(i); }
            for (auto &m : msgs) { hot.push_back((size_t) m.a); hot.push_back((size_t) m.b); }
            size_t k = (size_t) rng.range(1, (int64_t) std::max<size_t>(1, param ? param : 6));
            for (size_t i = 0; i < k && !hot.empty(); i++) { size_t h = hot[rng.below(hot.size())]; long d = (long) rng.range(-2, 2); long p = (long) h + d; if (p > 0) add((size_t) p); }
            if (rng.coin()) for (auto &m : msgs) { add((size_t) m.a); add((size_t) m.b); }
            break;
        }
        case ST_NET: {
            size_t mss = rng.coin() ? 1460 : 536; size_t p = 0;
            for (auto &m : msgs) {   // a sender writes a message, TCP cuts it at MSS; small writes sometimes coalesce
                p = (size_t) m.a; if (!rng.chance(1, 3)) add(p);
                while (p + mss < (size_t) m.b) { p += mss; add(p); }
            }
            break;
        }
        case ST_ONECUT: add(param); break;
    }
    return std::vector<size_t>(cuts.begin(), cuts.end());
}

void interleave_ops(Rng &rng, const ConnPlan &cp, int conn, const std::vector<size_t> &cuts0, const std::vector<size_t> &cuts1,
                    int req_bias_pct, bool legal, bool early_ok, std::vector<Op> &ops) {
    std::vector<size_t> b[2];
    for (int d = 0; d < 2; d++) {
        const std::vector<size_t> &c = d == 0 ? cuts0 : cuts1;
        b[d].push_back(0); for (size_t x : c) b[d].push_back(x); b[d].push_back(cp.stream[d].size());
    }
    // a request that waits for the previous answer starts a chunk of its own, and that answer ends one (otherwise the two
    // constraints - request after answer, answer chunk after every request it covers - could block each other)
    for (size_t k = 1; k < cp.xchg.size(); k++) for (auto &ex : cp.xchg[k].expect) if (ex.first == "@req_after_prev_res" && cp.xchg[k].req.a > 0) { b[0].push_back((size_t) cp.xchg[k].req.a); if (cp.xchg[k - 1].res.b > 0) b[1].push_back((size_t) cp.xchg[k - 1].res.b); }
    for (int d = 0; d < 2; d++) { std::sort(b[d].begin(), b[d].end()); b[d].erase(std::unique(b[d].begin(), b[d].end()), b[d].end()); }
    size_t i[2] = {0, 0};   // index of next chunk start in b[d]
    auto remaining = [&](int d) { return i[d] + 1 < b[d].size() && b[d][i[d]] < b[d][i[d] + 1]; };
    while (remaining(0) || remaining(1)) {
        bool can[2] = {remaining(0), remaining(1)};
        if (can[0]) {
            // exchanges marked "@req_after_prev_res": the client waits for the previous answer (e.g. tunnel bytes after a 101)
            size_t e = b[0][i[0] + 1], respos = b[1][i[1]];
            for (size_t k = 1; k < cp.xchg.size(); k++) {
                const Exchange &x = cp.xchg[k];
                if (x.req.b > x.req.a && (size_t) x.req.a < e) {
                    bool wait = false; for (auto &ex : x.expect) if (ex.first == "@req_after_prev_res") wait = true;
                    if (wait && respos < (size_t) cp.xchg[k - 1].res.b) { can[0] = false; break; }
                }
            }
        }
        if (can[1] && legal) {
            // a response chunk covering [a,e) may go only when every request whose response starts before e has been offered completely
            size_t e = b[1][i[1] + 1];
            size_t reqpos = b[0][i[0]];
            for (auto &x : cp.xchg) {
                if ((size_t) x.res.a < e && x.res.b > x.res.a) {
                    size_t need = early_ok ? (size_t) x.req_head_end : (size_t) x.req.b;
                    if (early_ok) for (auto &ex : x.expect) if (ex.first == "@no_early_response") need = std::min<size_t>((size_t) x.req.b, (size_t) x.req_head_end + 1);
                    if (reqpos < need) { can[1] = false; break; }
                }
            }
        }
        int d;
        if (can[0] && can[1]) d = rng.below(100) < (uint64_t) req_bias_pct ? 0 : 1;
        else if (can[0]) d = 0;
        else if (can[1]) d = 1;
        else d = remaining(1) ? 1 : 0;   // both blocked cannot happen with consistent constraints; make progress anyway
        if (!remaining(d)) d = 1 - d;
        Op op; op.kind = d == 0 ? 'Q' : 'S'; op.conn = conn; op.n = (long) (b[d][i[d] + 1] - b[d][i[d]]);
        ops.push_back(op);
        i[d]++;
    }
}

void random_cfg(Rng &rng, Cfg &cfg, bool wellformed) {
    cfg.set("personality", (long) rng.below(10));
    if (rng.chance(1, 3)) cfg.set("auto_destroy", 1);
    if (rng.chance(1, 4)) cfg.set("log_level", (long) rng.below(7));
    cfg.set("cookies", rng.chance(4, 5)); cfg.set("auth", rng.chance(4, 5));
    cfg.set("urlenc", rng.chance(4, 5)); cfg.set("mpart", rng.chance(4, 5));
    if (!wellformed) {
        if (rng.chance(1, 3)) { static const long H[] = {64, 100, 256, 512, 2000, 18000}; long h = H[rng.below(6)]; cfg.set("field_hard", h); cfg.set("field_soft", h / 2); }
        if (rng.chance(1, 4)) { static const long M[] = {1, 2, 8, 512}; cfg.set("max_tx", M[rng.below(4)]); }
        if (rng.chance(1, 3)) cfg.set("req_decomp", 1);
        if (rng.chance(1, 5)) cfg.set("res_decomp", 0);
        if (rng.chance(1, 4)) { static const long B[] = {1024, 4096, 65536, 1048576}; cfg.set("bomb_limit", B[rng.below(4)]); }
        if (rng.chance(1, 6)) cfg.set("allow_space_uri", 1);
        if (rng.chance(1, 5)) { cfg.set("extract_files", 1); if (rng.coin()) cfg.set("extract_limit", (long) rng.below(4)); }
        if (rng.chance(1, 6)) cfg.set("decomp_layers", (long) rng.below(4));
        if (rng.chance(1, 4)) cfg.set("disposal", (long) rng.range(2, 3));
        if (rng.chance(1, 3)) { cfg.set("dec_swarm", (long) rng.below(1000000) + 1); cfg.set("dec_swarm_urlenc", rng.coin()); }
        if (rng.chance(1, 6)) cfg.set("cfg_copy", 1);
        if (rng.chance(1, 10)) cfg.set("null_ts", 1);
        if (rng.chance(1, 8)) { static const long HL[] = {0, 1, 4, 16, 64}; cfg.set("hdr_limit", HL[rng.below(5)]); }   // the cap on the number of header fields per message
        if (rng.chance(1, 6)) { static const long GB[] = {16, 61, 256, 1024, 8191}; cfg.set("gzip_buf", GB[rng.below(5)]); }   // tuning knob: the buffer-full paths run for small bodies too
        if (rng.chance(1, 8)) { static const long M[] = {0, 1024, 65536, 1048576}; cfg.set("lzma_memlimit", M[rng.below(4)]); }
        if (rng.chance(1, 8)) { static const long T[] = {1, 100, 100000, 10000000}; cfg.set("time_limit", T[rng.below(4)]); }
        if (rng.chance(1, 8)) cfg.set("lzma_layers", (long) rng.below(3));
    }
}

// ------------------------------------------------------------------------------------------------
// the repository's own captures (<<< / >>> convention of test/test.c), used as seed traffic

void load_captures(std::vector<std::pair<std::string, std::vector<std::pair<int, Bytes>>>> &out) {
    const char *dirs[] = {"/repo/test/files"};
    for (const char *dn : dirs) {
        DIR *d = opendir(dn);
        if (!d) continue;
        std::vector<std::string> names;
        while (struct dirent *e = readdir(d)) { std::string n = e->d_name; if (n.size() > 2 && n.substr(n.size() - 2) == ".t") names.push_back(n); }
        closedir(d);
        std::sort(names.begin(), names.end());   // readdir order is not deterministic
        for (auto &n : names) {
            std::string data;
            if (!read_file(std::string(dn) + "/" + n, data)) continue;
            std::vector<std::pair<int, Bytes>> chunks;
            size_t pos = 0; int cur = -1; Bytes acc;
            while (pos < data.size()) {
                size_t eol = data.find('\n', pos);
                size_t linelen = (eol == std::string::npos ? data.size() : eol + 1) - pos;
                std::string line = data.substr(pos, linelen);
                std::string bare = line; while (!bare.empty() && (bare.back() == '\n' || bare.back() == '\r')) bare.pop_back();
                if (bare == ">>>" || bare == "<<<") {
                    if (cur >= 0) {
                        // the newline before a marker is not part of the chunk
                        if (!acc.empty() && acc.back() == '\n') { acc.pop_back(); if (!acc.empty() && acc.back() == '\r') acc.pop_back(); }
                        chunks.push_back(std::make_pair(cur, acc));
                    }
                    acc.clear(); cur = bare == ">>>" ? 0 : 1;
                } else if (cur >= 0) acc += line;
                pos += linelen;
            }
            if (cur >= 0) { if (!acc.empty() && acc.back() == '\n') { acc.pop_back(); if (!acc.empty() && acc.back() == '\r') acc.pop_back(); } chunks.push_back(std::make_pair(cur, acc)); }
            if (!chunks.empty()) out.push_back(std::make_pair(n, chunks));
        }
    }
}

// One header line for a field the library parses beyond "name: value", its value a short soup of the tokens that parser looks
// for, drawn from a small per-field alphabet (so that unbalanced quotes, a trailing backslash, empty names, doubled separators,
// a scheme without credentials ... all turn up within a few thousand draws). For the scenarios without ground truth only.
HeaderSpec soup_header(Rng &r, bool response) {
    struct Fam { const char *name; std::vector<const char *> lead, tok; };
    static const std::vector<Fam> REQ = {
        {"Authorization", {"Digest ", "digest ", "Basic ", "Bearer ", "NTLM ", "Digest", "", "DIGEST  "}, {"username=", "\"", "\\", "a", " ", ",", "=", "realm=", "dTpw", "QQ==", ":", "Zm9v"}},
        {"Proxy-Authorization", {"Digest ", "Basic "}, {"username=", "\"", "\\", "a", " ", ",", "="}},
        {"Cookie", {""}, {"a", "=", ";", " ", "\"", ",", "b=c", "; ", "$Version=1", "\t", "=="}},
        {"Content-Type", {"multipart/form-data", "MULTIPART/form-data", "application/x-www-form-urlencoded", "text/plain", "multipart/byteranges", "", "multipart/form-data;"}, {";", " ", "boundary=", "boundary", "=", "\"", "x", ",", "charset=utf-8", "\\", "'", "BOUNDARY=", "--"}},
        {"Host", {""}, {"a", ".", ":", "[", "]", "80", "::1", " ", "-", "%", "@", "/", "99999", "\t", "A", "65535", "0"}},
        {"Content-Length", {""}, {"0", "5", " ", ",", "-", "+", "0x", "a", "18446744073709551616", "9223372036854775807", "\t", ";", "00"}},
        {"Transfer-Encoding", {""}, {"chunked", "gzip", "deflate", "identity", ",", " ", ";", "c", "CHUNKED", "compress", "q=1", "chunke", "chunkedx"}},
        {"Content-Encoding", {""}, {"gzip", "deflate", "lzma", "identity", ",", " ", ";", "x-gzip", "x-deflate", "inflate", "GZIP", "g", "none"}},
        {"Expect", {""}, {"100-continue", "100-Continue", " ", ",", "x", "100"}},
        {"Connection", {""}, {"close", "keep-alive", "Upgrade", ",", " ", "te"}},
        {"Upgrade", {""}, {"h2c", "websocket", ",", " ", "TLS/1.0", "HTTP/2.0"}},
    };
    static const std::vector<size_t> RES_IDX = {3, 5, 6, 7, 9, 10};   // fields the response side looks into
    const Fam &f = response ? REQ[RES_IDX[r.below(RES_IDX.size())]] : REQ[r.below(REQ.size())];
    HeaderSpec h; h.name = f.name; h.value = f.lead[r.below(f.lead.size())];
    int k = (int) r.range(r.chance(1, 6) ? 0 : 1, 5);
    for (int j = 0; j < k; j++) h.value += f.tok[r.below(f.tok.size())];
    return h;
}

void mutate_stream(Rng &rng, Bytes &s, int n_mut) {
    static const char INS[] = {'\r', '\n', 0, ' ', ':', '0', '9', '\t', ';', ',', '-', 'H', 'f'};
    for (int i = 0; i < n_mut; i++) {
        if (s.empty()) { s.push_back('\n'); continue; }
        size_t p = (size_t) rng.below(s.size());
        switch (rng.below(13)) {
            case 12: {  // a *generated* header line for one of the fields the library parses further: a short soup of the
                        // tokens those parsers look for (unbalanced quotes, trailing backslashes, empty names, doubled separators)
                static const char *NAMES[] = {"Authorization", "Cookie", "Content-Type", "Host", "Content-Length", "Transfer-Encoding", "Content-Encoding", "Content-Disposition", "Expect", "Connection", "Upgrade", "Proxy-Authorization", "Set-Cookie"};
                static const char *TOK[] = {"\"", "\\", "=", ";", ",", " ", ":", "a", "1", "username", "username=", "Digest ", "Basic ", "Bearer ", "boundary", "boundary=", "name=", "filename=", "form-data", "multipart/form-data",
                    "chunked", "gzip", "[", "]", "%", "+", ".", "-", "\t", "0x", "99999999999999999999", "QQ==", "dTpw", "&", "realm=", "\\\"", "100-continue", "/", "@", "deflate", "lzma", "application/x-www-form-urlencoded"};
                std::string line = NAMES[rng.below(sizeof NAMES / sizeof *NAMES)]; line += rng.chance(1, 8) ? ":" : ": ";
                int k = (int) rng.range(1, 8); for (int j = 0; j < k; j++) line += TOK[rng.below(sizeof TOK / sizeof *TOK)];
                line += "\r\n";
                size_t e = s.find('\n', p); if (e != std::string::npos) s.insert(e + 1, line);
                break;
            }
            case 8: {   // a line end replaced by one of the mixes the parsers treat specially
                static const char *EOLS[] = {"\n", "\r", "\n\r", "\r\r\n", "\n\r\r\n\r\n", "\r\n\r", "\r\r", "\n\n", "\r\n\r\n", "\n\r\n", "\r\n \r\n", "\r\n\t"};
                size_t e = s.find("\r\n", p); if (e != std::string::npos) s.replace(e, 2, EOLS[rng.below(sizeof EOLS / sizeof *EOLS)]);
                break;
            }
            case 9: {   // a header line with meaning inserted after some line end
                static const char *LINES[] = {"Content-Type: multipart/byteranges; boundary=x\r\n", "Content-Length: 5\r\n", "Content-Length: 0\r\n", "Transfer-Encoding: chunked\r\n", "Content-Encoding: gzip\r\n",
                    "Content-Encoding: deflate, lzma\r\n", "Content-Encoding: lzma\r\n", "Connection: close\r\n", "Expect: 100-continue\r\n", "Upgrade: h2c\r\n", "Content-Type: multipart/form-data; boundary=X\r\n",
                    "Content-Type: application/x-www-form-urlencoded\r\n", "Authorization: Bearer abc\r\n", "Authorization: Basic !!!\r\n", "Authorization: Basic\r\n", "Authorization: Digest username=\r\n", "Authorization: Digest username=\"a\\\"b\r\n",
                    "Authorization: NTLM abc\r\n", "Host: a:b\r\n", "Host: [::1]:80\r\n", "Host: \r\n", "Cookie: =; ;a\r\n", " folded\r\n", "\tfolded: x\r\n", "Content-Length: 18446744073709551616\r\n", "Content-Length: -1\r\n",
                    "Transfer-Encoding: identity\r\n", "Content-Type: multipart/form-data\r\n",
                    "Content-Disposition: form-data; name=\"a\"; name=\"b\"\r\n", "Content-Disposition: form-data; name=a\r\n", "Content-Disposition: form-data; name='a'\r\n", "Content-Disposition: attachment\r\n",
                    "Content-Disposition: form-data; filename=\"x\r\n", "Content-Disposition: form-data name=\"a\"\r\n", "Content-Disposition: form-data; name=\"a\" x\r\n", "Content-Disposition: form-data; =\"a\"\r\n",
                    "Content-Disposition: form-data; name=\"a\"; filename=\"f\"; filename=\"g\"\r\n", "Content-Type: multipart/form-data; boundary='x'\r\n", "Content-Type: multipart/form-data; boundary=\"x y\"\r\n",
                    "Content-Type: multipart/form-data; BOUNDARY=x; boundary=y\r\n", "Content-Type: multipart/form-data; boundary=x; charset=utf-8\r\n", "Content-Type: multipart/form-data; boundary = x\r\n",
                    "Content-Type: multipart/form-data; boundary=x,y\r\n", "Content-Type: multipart/form-data boundary=x\r\n", "Content-Type: MULTIPART/FORM-DATA; boundary=\"x\r\n", "X-Unknown-Part-Header: v\r\n", "Content-Type: multipart/form-data; boundary=\r\n", "Content-Type: multipart/form-data; boundary=\"a b\"; boundary=c\r\n"};
                size_t e = s.find('\n', p); if (e != std::string::npos) s.insert(e + 1, LINES[rng.below(sizeof LINES / sizeof *LINES)]);
                break;
            }
            case 10: {  // another status code
                static const char *CODES[] = {"100", "101", "102", "199", "204", "304", "401", "407", "200", "206", "999", "000", "1xx", "2000"};
                size_t e = s.find("HTTP/1.", p > 8 ? p - 8 : 0); if (e != std::string::npos && e + 12 <= s.size() && s[e + 8] == ' ' && isdigit((unsigned char) s[e + 9])) s.replace(e + 9, 3, CODES[rng.below(sizeof CODES / sizeof *CODES)]);
                break;
            }
            case 11: {  // another method at the start of a line
                static const char *METH[] = {"CONNECT", "HEAD", "PUT", "POST", "GET", "OPTIONS", "TRACE", "PRI", "get", "G\0T"};
                size_t b = s.rfind('\n', p); b = b == std::string::npos ? 0 : b + 1; size_t sp = s.find(' ', b);
                if (sp != std::string::npos && sp - b <= 8 && sp > b) s.replace(b, sp - b, METH[rng.below(sizeof METH / sizeof *METH)]);
                break;
            }
            case 0: s[p] = (char) rng.below(256); break;
            case 1: s.insert(p, 1, INS[rng.below(sizeof INS)]); break;
            case 2: s.erase(p, (size_t) rng.range(1, 4)); break;
            case 3: s.resize(p); break;                                                          // truncation
            case 4: { size_t q = (size_t) rng.below(s.size()); size_t l = std::min<size_t>((size_t) rng.range(1, 40), s.size() - q); s.insert(p, s.substr(q, l)); break; }  // splice
            case 5: { size_t e = s.find('\n', p); if (e != std::string::npos) { size_t b = s.rfind('\n', p); b = b == std::string::npos ? 0 : b + 1; s.insert(e + 1, s.substr(b, e + 1 - b)); } break; } // duplicate a line
            case 6: { size_t d = p; while (d < s.size() && !isdigit((unsigned char) s[d])) d++; if (d < s.size()) s[d] = (char) ('0' + rng.below(10)); break; }     // change a length
            case 7: s[p] = (char) (s[p] ^ (1 << rng.below(8))); break;
        }
        if (s.size() > (1u << 19)) s.resize(1u << 19);
    }
}


// ------------------------------------------------------------------------------------------------
// encoders (actors' side)

Bytes z_encode(const Bytes &in, int window_bits, int level, int gz_header_fields) {
    z_stream zs; memset(&zs, 0, sizeof zs);
    if (deflateInit2(&zs, level, Z_DEFLATED, window_bits, 8, Z_DEFAULT_STRATEGY) != Z_OK) return Bytes();
    gz_header gh; memset(&gh, 0, sizeof gh);
    static unsigned char extra[] = {'A', 'p', 3, 0, 1, 2, 3}, name[] = "file.txt", comment[] = "simulated";
    if (window_bits > 15 + 15 && gz_header_fields) {
        if (gz_header_fields & 1) gh.name = name;
        if (gz_header_fields & 2) gh.comment = comment;
        if (gz_header_fields & 4) gh.hcrc = 1;
        if (gz_header_fields & 8) { gh.extra = extra; gh.extra_len = sizeof extra; }
        gh.os = 3;
        deflateSetHeader(&zs, &gh);
    }
    Bytes out; unsigned char buf[16384];
    zs.next_in = (Bytef *) in.data(); zs.avail_in = (uInt) in.size();
    int rc;
    do {
        zs.next_out = buf; zs.avail_out = sizeof buf;
        rc = deflate(&zs, Z_FINISH);
        out.append((const char *) buf, sizeof buf - zs.avail_out);
    } while (rc == Z_OK || rc == Z_BUF_ERROR);
    deflateEnd(&zs);
    return out;
}

Bytes lzma_alone_encode(const Bytes &in, uint32_t dict_size) {
    lzma_options_lzma opt;
    if (lzma_lzma_preset(&opt, 1)) return Bytes();
    opt.dict_size = dict_size;
    lzma_stream st = LZMA_STREAM_INIT;
    if (lzma_alone_encoder(&st, &opt) != LZMA_OK) return Bytes();
    Bytes out; unsigned char buf[16384];
    st.next_in = (const uint8_t *) in.data(); st.avail_in = in.size();
    lzma_ret rc;
    do {
        st.next_out = buf; st.avail_out = sizeof buf;
        rc = lzma_code(&st, LZMA_FINISH);
        out.append((const char *) buf, sizeof buf - st.avail_out);
    } while (rc == LZMA_OK);
    lzma_end(&st);
    return out;
}

// Seams: everything libhtp would otherwise get from the OS goes through here.
// libhtp's objects (and a private copy of libz.a) have malloc/calloc/realloc/free/strdup/
// gettimeofday/mkstemp/write/close/unlink/umask renamed to sim_* with objcopy, so these functions
// see exactly the library's calls and nothing of the harness' own.
#pragma once
#include <cstdint>
#include <cstddef>
#include <string>
#include <vector>
#include <map>
#include <deque>

struct UbsanHit { std::string kind, file; unsigned line; };

struct SimSeams {
    // ---- allocation
    bool track = false;            // true while inside a libhtp API call
    uint64_t n_total = 0;          // allocations attempted this run (tracked only)
    uint64_t n_in_op = 0;
    uint64_t fail_at = 0;          // 1-based index (run-global) of the allocation to fail; 0 = none
    bool fail_sustained = false;   // fail every allocation from fail_at on
    uint64_t failed = 0;           // allocations actually failed
    uintptr_t first_fail_site = 0; // return address of the first failed allocation
    std::vector<uint64_t> realloc_ks; // 1-based indices of the allocations of this run that were realloc calls (container / buffer growth)
    int64_t live_bytes = 0, peak_bytes = 0;
    uint64_t live_blocks = 0;
    int owner = 0;                 // current task id (C19 ownership oracle)
    uint64_t bad_free = 0;         // frees of pointers the seam never handed out (while tracking)
    // ---- clock (microseconds)
    int64_t now_us = 1700000000LL * 1000000LL;
    int64_t step_us = 7;           // advance per read
    int clock_mode = 0;            // 0 well-behaved, 1 jump forward, 2 backwards, 3 stall, 4 huge usec
    int64_t clock_jump_us = 0;
    uint64_t clock_reads = 0;
    uint64_t clock_fault_every = 0; // apply the fault on every n-th read (0 = never)
    uint64_t clock_faults = 0;
    // ---- file layer
    int fs_fail_mkstemp_at = 0;    // n-th mkstemp fails (1-based), 0 = never
    int fs_fail_write_at = 0;      // n-th write fails
    int fs_write_mode = 0;         // 0 = -1/ENOSPC, 1 = short write, 2 = -1/EIO
    int fs_fail_close_at = 0;
    uint64_t n_mkstemp = 0, n_write = 0, n_close = 0, n_unlink = 0, fs_faults = 0;
    std::map<int, std::string> files;       // fd -> content
    std::map<int, std::string> file_names;  // fd -> name
    std::map<std::string, std::string> closed_files; // name -> content (after close, until unlink)
    int next_fd = 1000;
    // ---- cpu
    uint64_t ticks = 0;            // libhtp basic blocks executed
    uint64_t call_start_ticks = 0;
    uint64_t call_budget = 0;      // 0 = no budget; otherwise exceeding it is a hang
    // ---- sanitizer reports
    std::vector<UbsanHit> ubsan;
    uint64_t ubsan_benign = 0;
};

extern SimSeams g_seams;

void seams_reset_run();                 // new run: counters, clock, fs; the live set must already be empty
size_t seams_live_blocks();
std::string seams_describe_live(size_t max_items);  // for leak reports
std::string seams_live_histogram();     // " site:blocks:bytes ..." over the live set
void seams_forget_live();               // after a reported leak: drop the records (memory is lost anyway)
const char *seams_current_phase();
void seams_set_phase(const char *p);    // shown in hang/crash reports

// schedule hook for the baton scheduler (C19): called from the pc-guard callback
extern void (*g_preempt_hook)();
// ownership hooks (C19): called on every load/store made by libhtp when built with trace-loads/stores
extern void (*g_access_hook)(const void *addr, unsigned size, int is_store);
// look up the block containing addr: returns owner id or -1 when unknown
int seams_block_owner(const void *addr);
// same, also returns the block's extent; g_alloc_epoch changes whenever the live set changes (lets callers cache)
int seams_block_owner_ex(const void *addr, uintptr_t *lo, uintptr_t *hi);
extern uint64_t g_alloc_epoch;
// writable statics of libhtp (name, address, size): the watch list of the shared-memory oracle, from VERIF_STATICS
struct WatchedStatic { std::string name; uintptr_t addr; size_t size; };
extern std::vector<WatchedStatic> g_watched_statics;
void seams_load_watch_list();
